// scratch probe: does a read reach the storage backend after close() when a reader thread races the drop of the Database?
use redb::{Database, ReadableDatabase, ReadableTable, StorageBackend, TableDefinition};
use std::sync::atomic::{AtomicBool, AtomicU64, Ordering};
use std::sync::{Arc, Mutex};
const T: TableDefinition<u64, &[u8]> = TableDefinition::new("t");

#[derive(Debug, Clone)]
struct Mon { data: Arc<Mutex<(Vec<u8>, bool, u64)>>, after_close: Arc<AtomicU64> }
impl StorageBackend for Mon {
    fn len(&self) -> std::io::Result<u64> { Ok(self.data.lock().unwrap().0.len() as u64) }
    fn read(&self, off: u64, out: &mut [u8]) -> std::io::Result<()> {
        let g = self.data.lock().unwrap();
        if g.1 { self.after_close.fetch_add(1, Ordering::SeqCst); }
        out.copy_from_slice(&g.0[off as usize..off as usize + out.len()]); Ok(())
    }
    fn set_len(&self, len: u64) -> std::io::Result<()> { self.data.lock().unwrap().0.resize(len as usize, 0); Ok(()) }
    fn sync_data(&self) -> std::io::Result<()> { Ok(()) }
    fn write(&self, off: u64, d: &[u8]) -> std::io::Result<()> { let mut g = self.data.lock().unwrap(); g.0[off as usize..off as usize + d.len()].copy_from_slice(d); Ok(()) }
    fn close(&self) -> std::io::Result<()> { self.data.lock().unwrap().1 = true; Ok(()) }
}

fn main() {
    let mut hits = 0;
    let rounds = 1500;
    for _ in 0..rounds {
        let mon = Mon { data: Arc::new(Mutex::new((vec![], false, 0))), after_close: Arc::new(AtomicU64::new(0)) };
        let mut b = Database::builder();
        b.set_cache_size(0);
        let db = b.create_with_backend(mon.clone()).unwrap();
        let txn = db.begin_write().unwrap();
        { let mut t = txn.open_table(T).unwrap(); for i in 0..400u64 { t.insert(i, [7u8; 200].as_slice()).unwrap(); } }
        txn.commit().unwrap();
        let rt = db.begin_read().unwrap();
        let stop = Arc::new(AtomicBool::new(false));
        let s2 = stop.clone();
        let h = std::thread::spawn(move || {
            let t = rt.open_table(T).unwrap();
            let mut i = 0u64;
            while !s2.load(Ordering::Relaxed) {
                let _ = t.get(i % 400).map(|g| g.map(|v| v.value().len()));
                i += 1;
            }
        });
        std::thread::sleep(std::time::Duration::from_millis(2));
        drop(db);
        std::thread::sleep(std::time::Duration::from_millis(1));
        stop.store(true, Ordering::Relaxed);
        h.join().unwrap();
        if mon.after_close.load(Ordering::SeqCst) > 0 { hits += 1; }
    }
    println!("rounds in which a read() reached the backend after close(): {hits} of {rounds}");
}
