// scratch probe: randomized -- durable commits, a pending non-durable commit, a caught panic inside a write
// transaction, then check_integrity() twice, at a given page size
use redb::{Database, Durability, TableDefinition, ReadableDatabase, ReadableTable};
use redb::backends::InMemoryBackend;
const T: TableDefinition<u64, &[u8]> = TableDefinition::new("t");
fn rnd(s: &mut u64) -> u64 { *s ^= *s << 13; *s ^= *s >> 7; *s ^= *s << 17; *s }

fn main() {
    let ps: usize = std::env::args().nth(1).and_then(|s| s.parse().ok()).unwrap_or(4096);
    let mut bad = 0;
    for case in 0..3000u64 {
        let mut s = 0x9E3779B97F4A7C15u64 ^ (case * 77 + 1);
        let r = std::panic::catch_unwind(std::panic::AssertUnwindSafe(|| {
            let mut b = Database::builder();
            b.verif_set_page_size(ps);
            b.set_cache_size([0usize, 4096, 1 << 20][(case % 3) as usize]);
            let mut db = b.create_with_backend(InMemoryBackend::new()).unwrap();
            let mut model = std::collections::BTreeMap::new();
            let mut write = |db: &Database, durable: bool, s: &mut u64, model: &mut std::collections::BTreeMap<u64, Vec<u8>>| {
                let mut txn = db.begin_write().unwrap();
                if !durable { txn.set_durability(Durability::None).unwrap(); }
                { let mut t = txn.open_table(T).unwrap();
                  for _ in 0..(rnd(s) % 60) {
                    let k = rnd(s) % 300;
                    if rnd(s) % 3 == 0 { t.remove(k).unwrap(); model.remove(&k); }
                    else { let v = vec![(k % 251) as u8; (rnd(s) % (ps as u64 / 2)) as usize]; t.insert(k, v.as_slice()).unwrap(); model.insert(k, v); }
                  } }
                txn.commit().unwrap();
            };
            for _ in 0..(1 + rnd(&mut s) % 4) { write(&db, true, &mut s, &mut model); }
            for _ in 0..(1 + rnd(&mut s) % 3) { write(&db, false, &mut s, &mut model); }
            let r = std::panic::catch_unwind(std::panic::AssertUnwindSafe(|| {
                let txn = db.begin_write().unwrap();
                let mut t = txn.open_table(T).unwrap();
                for _ in 0..(1 + rnd(&mut s) % 80) { let k = 1000 + rnd(&mut s) % 300; t.insert(k, vec![9u8; (rnd(&mut s) % (ps as u64 / 2)) as usize].as_slice()).unwrap(); }
                drop(t);
                panic!("application bug");
            }));
            assert!(r.is_err());
            let a = db.check_integrity();
            let b = db.check_integrity();
            let rt = db.begin_read().unwrap();
            let t = rt.open_table(T).unwrap();
            let got: std::collections::BTreeMap<u64, Vec<u8>> = t.iter().unwrap().map(|e| { let (k, v) = e.unwrap(); (k.value(), v.value().to_vec()) }).collect();
            (format!("{a:?} {b:?}"), got == model)
        }));
        match r {
            Ok((s, same)) if s == "Ok(false) Ok(true)" && same => {}
            Ok((s, same)) if s == "Ok(true) Ok(true)" && same => {}
            Ok((s, same)) => { bad += 1; if bad < 6 { println!("case {case}: check_integrity x2 = {s}; contents intact = {same}"); } }
            Err(e) => { bad += 1; if bad < 6 { println!("case {case}: panic {:?}", e.downcast_ref::<String>().cloned().or_else(|| e.downcast_ref::<&str>().map(|s| s.to_string()))); } }
        }
    }
    println!("page size {ps}: {bad} bad cases of 3000");
}
