use redb::*;
use rv::backend::MonBackend;
const A: TableDefinition<u64, &[u8]> = TableDefinition::new("A0");
fn main() {
    let args: Vec<String> = std::env::args().collect();
    let page: usize = args.get(1).and_then(|s| s.parse().ok()).unwrap_or(4096);
    let n: u64 = args.get(2).and_then(|s| s.parse().ok()).unwrap_or(30);
    let mut be = MonBackend::new();
    let mk = |be: &MonBackend| {
        let mut b = Database::builder();
        b.verif_set_page_size(page);
        b.verif_set_region_size(32 * page as u64);
        b.create_with_backend(be.clone()).unwrap()
    };
    let db = mk(&be);
    for round in 0..3 {
        let txn = db.begin_write().unwrap();
        {
            let mut t = txn.open_table(A).unwrap();
            for i in 0..n {
                t.insert(i * 7 + round, vec![1u8; 700].as_slice()).unwrap();
            }
            for i in 0..n / 2 {
                t.remove(i * 14 + round).unwrap();
            }
        }
        txn.commit().unwrap();
    }
    drop(db);
    println!("closed len L0 = {}", be.lock().data.len());
    for k in 1..=4 {
        be = MonBackend::from_image(be.image());
        let mut db = mk(&be);
        let open_before = be.lock().data.len();
        let r = db.compact().unwrap();
        let open_after = be.lock().data.len();
        drop(db);
        println!("compact #{k}: returned {r}; open before {open_before}, at return {open_after}, after close {}", be.lock().data.len());
    }
    // two compactions without closing in between
    be = MonBackend::from_image(be.image());
    let mut db = mk(&be);
    for k in 1..=3 {
        let b = be.lock().data.len();
        let r = db.compact().unwrap();
        println!("same-session compact #{k}: returned {r}; before {b}, at return {}", be.lock().data.len());
    }
}
