use redb::*;
use rv::backend::MonBackend;
const T: TableDefinition<u64, u64> = TableDefinition::new("F0");
fn main() {
    let args: Vec<String> = std::env::args().collect();
    let variant: u32 = args.get(1).and_then(|s| s.parse().ok()).unwrap_or(0);
    let be = MonBackend::new();
    let db = Database::builder().create_with_backend(be.clone()).unwrap();
    if variant & 16 != 0 {
        let txn = db.begin_write().unwrap();
        { let mut t = txn.open_table(T).unwrap(); t.insert(1, 1).unwrap(); }
        txn.commit().unwrap();
    }
    drop(db);
    let be = MonBackend::from_image(be.image());
    let mut db = Database::builder().create_with_backend(be.clone()).unwrap();
    if variant & 1 != 0 {
        println!("after reopen check_integrity = {:?}", db.check_integrity());
    }
    if variant & 2 != 0 {
        let txn = db.begin_write().unwrap();
        txn.commit().unwrap();
    }
    if variant & 4 != 0 {
        let txn = db.begin_write().unwrap();
        {
            let _t = txn.open_table(T).unwrap();
        }
        txn.abort().unwrap();
    }
    if variant & 8 != 0 {
        let txn = db.begin_write().unwrap();
        txn.abort().unwrap();
    }
    println!("variant {variant}: check_integrity = {:?}", db.check_integrity());
    println!("second: check_integrity = {:?}", db.check_integrity());
}
