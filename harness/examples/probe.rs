use rv::checks::c19::Mem3;
use rv::fmt::*;
use std::sync::{Arc, Mutex};
fn main() {
    for p in std::env::args().skip(1) {
        let img = std::fs::read(&p).unwrap();
        let Ok((f, d)) = check_image(&img, false) else { println!("{p}: undecodable"); continue };
        let Some(a) = f.alloc_state.as_ref() else { println!("{p}: no alloc state (crash image)"); continue };
        let lens: Vec<u32> = a.regions.iter().map(|r| BuddyImage::parse(r).unwrap().num_pages).collect();
        let m = Mem3(Arc::new(Mutex::new(img.clone())));
        let r = std::panic::catch_unwind(|| {
            let mut db = redb3::Database::builder().create_with_backend(m.clone()).unwrap();
            db.check_integrity().map_err(|e| e.to_string())
        });
        println!("{p}: file pages {} saved allocator pages {:?} -> 3.0.0 check_integrity {:?}", d.layout.trailing_pages, lens, r.ok());
    }
}
