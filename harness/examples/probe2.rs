use redb::{Database, ReadableDatabase, ReadableTable, TableDefinition, backends::InMemoryBackend};
const T: TableDefinition<u64, &[u8]> = TableDefinition::new("t");
fn main() {
    for (page, region_pages) in [(512usize, Some(64u64)), (512, Some(8)), (1024, Some(16)), (4096, None), (512, None)] {
        for vlen in [20_000usize, 40_000, 100_000, 1_000_000, 5_000_000] {
            let mut b = Database::builder();
            b.verif_set_page_size(page);
            if let Some(r) = region_pages { b.verif_set_region_size(r * page as u64); }
            let r = std::panic::catch_unwind(std::panic::AssertUnwindSafe(|| {
                let db = b.create_with_backend(InMemoryBackend::new()).unwrap();
                let txn = db.begin_write().unwrap();
                let res = { let mut t = txn.open_table(T).unwrap(); t.insert(1, vec![7u8; vlen].as_slice()).map(|_| ()) };
                match res { Ok(()) => { txn.commit().unwrap(); let rt = db.begin_read().unwrap(); let t = rt.open_table(T).unwrap(); format!("ok len={}", t.get(1).unwrap().unwrap().value().len()) }, Err(e) => format!("err {e:?}") }
            }));
            println!("page={page} region={region_pages:?} vlen={vlen}: {:?}", r.map_err(|_| "PANIC"));
        }
    }
}
