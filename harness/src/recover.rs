//! Oracle applied to a reconstructed crash image (C01, shared with C07/C11/C13): the image must
//! open, show exactly one admissible commit point, pass check_integrity, decode under M2, and keep
//! behaving like the model.

use crate::backend::{Ev, MonBackend};
use crate::crash::{CrashBudget, CrashImage, Enumerator};
use crate::model::*;
use crate::ops::*;
use crate::report::guarded;
use crate::rng::Rng;
use crate::world::*;
use redb::ReadableDatabase;
use std::collections::{BTreeMap, BTreeSet};
use std::sync::Arc;

#[derive(Default, Clone, Debug)]
pub struct RecStats {
    pub images: u64,
    pub recovered_to_floor: u64,
    pub recovered_to_newer: u64,
    pub recovered_to_ceiling_inflight: u64,
    pub window_gt1: u64,
    pub integrity_checked: u64,
    pub m2_checked: u64,
    pub deep: u64,
    pub savepoints_restored: u64,
    pub recursion_images: u64,
    pub repaired_opens: u64,
    pub quick_repair_opens: u64,
    pub sigs: Vec<u64>,
}

pub struct RecCtx<'a> {
    pub cfg: &'a Cfg,
    pub opts: &'a Opts,
    pub commits: &'a [CommitPoint],
    pub seed: u64,
    pub stats: RecStats,
    /// recursion depth for crashes during the recovery itself
    pub depth: u32,
    pub deep_every: u64,
    pub check_m2: bool,
    pub check_integrity: bool,
    /// crash-during-recovery enumeration is applied to every n-th image
    pub rec_every: u64,
    /// at most this many inner crash images per recovery
    pub rec_cap: usize,
}

pub fn window(commits: &[CommitPoint], pos: usize) -> (usize, usize) {
    let mut floor = 0usize;
    let mut ceil = 0usize;
    for (i, c) in commits.iter().enumerate() {
        if c.ack_pos <= pos {
            floor = i;
        }
        if c.req_pos <= pos {
            ceil = i;
        }
    }
    (floor, ceil.max(floor))
}

impl RecCtx<'_> {
    /// Returns Err(description) on a violation.
    pub fn check(&mut self, ci: &CrashImage, img: Vec<u8>, level: u32) -> Result<(), String> {
        self.stats.images += 1;
        let (floor, ceil) = window(self.commits, if level == 0 { ci.pos } else { usize::MAX });
        self.check_in_window(ci, img, level, floor, ceil)
    }

    pub fn check_in_window(
        &mut self,
        ci: &CrashImage,
        img: Vec<u8>,
        level: u32,
        floor: usize,
        ceil: usize,
    ) -> Result<(), String> {
        let be = MonBackend::from_image(img.clone());
        be.lock().name = format!("recovery-l{level}");
        let want_rec = level < self.depth
            && self.rec_every > 0
            && (self.stats.images + self.stats.recursion_images) % self.rec_every == 0;
        if want_rec {
            be.start_recording();
        }
        let cfg = self.cfg.clone();
        let be2 = be.clone();
        let opened = guarded(move || cfg.builder().create_with_backend(be2));
        let mut db = match opened {
            Err(p) => return Err(format!("panic while reopening the crash image: {}", p.short())),
            Ok(Err(e)) => return Err(format!("reopening the crash image failed: {e}")),
            Ok(Ok(db)) => db,
        };
        let rec_len = be.log_len();
        {
            let st = be.lock();
            if st.counts.write > 0 && level == 0 {
                self.stats.repaired_opens += 1;
            }
        }
        // -- contents
        let got = match guarded(|| dump_db(&db)) {
            Err(p) => return Err(format!("panic while reading the recovered database: {}", p.short())),
            Ok(Err(f)) => return Err(format!("reading the recovered database: {}", f.text())),
            Ok(Ok(c)) => c,
        };
        let psp_got: BTreeSet<u64> = {
            let r = guarded(|| -> R<BTreeSet<u64>> {
                let txn = db.begin_write().map_err(se("begin_write after recovery"))?;
                let s = list_psp(&txn)?;
                txn.abort().map_err(se("abort"))?;
                Ok(s)
            });
            match r {
                Err(p) => return Err(format!("panic listing savepoints after recovery: {}", p.short())),
                Ok(Err(f)) => return Err(format!("listing savepoints after recovery: {}", f.text())),
                Ok(Ok(s)) => s,
            }
        };
        let mut matched = None;
        for i in (floor..=ceil).rev() {
            let c = &self.commits[i];
            if *c.contents == got && c.psp.keys().copied().collect::<BTreeSet<u64>>() == psp_got {
                matched = Some(i);
                break;
            }
        }
        let Some(mi) = matched else {
            let df = diff_contents(&self.commits[floor].contents, &got).unwrap_or_else(|| "contents equal".into());
            let dc = diff_contents(&self.commits[ceil].contents, &got).unwrap_or_else(|| "contents equal".into());
            return Err(format!(
                "recovered state matches no commit point in the admissible window [seq {}..seq {}]: vs oldest: {df}; vs newest: {dc}; savepoints recovered {:?}, oldest has {:?}, newest has {:?}",
                self.commits[floor].seq,
                self.commits[ceil].seq,
                psp_got,
                self.commits[floor].psp.keys().collect::<Vec<_>>(),
                self.commits[ceil].psp.keys().collect::<Vec<_>>()
            ));
        };
        if level == 0 {
            if ceil > floor {
                self.stats.window_gt1 += 1;
            }
            if mi == floor {
                self.stats.recovered_to_floor += 1;
            } else {
                self.stats.recovered_to_newer += 1;
                if mi == ceil && self.commits[ceil].ack_pos > ci.pos {
                    self.stats.recovered_to_ceiling_inflight += 1;
                }
            }
            self.stats
                .sigs
                .push(crate::rng::mix(ci.signature(), mi as u64));
        } else {
            self.stats.recursion_images += 1;
        }
        // -- integrity
        if self.check_integrity {
            match guarded(|| db.check_integrity()) {
                Err(p) => return Err(format!("panic in check_integrity after recovery: {}", p.short())),
                Ok(Err(e)) => return Err(format!("check_integrity after recovery failed: {e}")),
                Ok(Ok(false)) => {
                    return Err("check_integrity after recovery returned Ok(false): the recovered allocation state was wrong".into());
                }
                Ok(Ok(true)) => self.stats.integrity_checked += 1,
            }
        }
        // -- deep: savepoints restorable, further transactions behave
        let deep = self.deep_every > 0 && self.stats.images % self.deep_every == 0;
        let cp = self.commits[mi].clone();
        if deep || !cp.psp.is_empty() {
            for (id, snap) in &cp.psp {
                let r = guarded(|| -> R<()> {
                    let mut txn = db.begin_write().map_err(se("begin_write"))?;
                    let sp = txn
                        .get_persistent_savepoint(*id)
                        .map_err(se("get_persistent_savepoint after recovery"))?;
                    txn.restore_savepoint(&sp)
                        .map_err(se("restore_savepoint after recovery"))?;
                    let seen = dump_write(&txn)?;
                    if let Some(d) = diff_contents(snap, &seen) {
                        return oracle(format!("persistent savepoint {id} restored to a different state after recovery: {d}"));
                    }
                    txn.abort().map_err(se("abort"))?;
                    Ok(())
                });
                // context for triage: which commit created the savepoint, and was the state it
                // captured already durable when the crash struck?
                let ctx = match self.commits.iter().position(|c| c.psp.contains_key(id)) {
                    Some(ci_idx) => {
                        let c = &self.commits[ci_idx];
                        let in_flight = c.ack_pos > ci.pos;
                        let captured_unsynced = ci_idx > 0 && self.commits[ci_idx - 1].ack_pos > ci.sync_pos;
                        format!(
                            " [the savepoint was created by commit seq {} ({}), {}; the state it captured was {} at the crash]",
                            c.seq,
                            c.desc,
                            if in_flight { "in flight at the crash" } else { "acknowledged before the crash" },
                            if captured_unsynced { "not yet durable (written by a Durability::None commit)" } else { "durable" }
                        )
                    }
                    None => String::new(),
                };
                match r {
                    Err(p) => return Err(format!("panic restoring savepoint {id} after recovery{ctx}: {}", p.short())),
                    Ok(Err(f)) => return Err(format!("restoring savepoint {id} after recovery{ctx}: {}", f.text())),
                    Ok(Ok(())) => self.stats.savepoints_restored += 1,
                }
            }
        }
        if deep {
            self.stats.deep += 1;
            let mut w = World {
                cfg: self.cfg.clone(),
                opts: self.opts.clone(),
                be: be.clone(),
                db: Some(db),
                rng: Rng::new(crate::rng::mix(self.seed, ci.signature())),
                visible: cp.contents.clone(),
                psp: BTreeMap::new(),
                esp: vec![],
                order: 1_000_000,
                commits: vec![],
                readers: vec![],
                trace: None,
                counts: BTreeMap::new(),
                next_seq: 0,
                sync_obs: BTreeMap::new(),
                sync_errors: vec![],
                be_violations: vec![],
                judge_compact_size: false,
                track_pins: false,
                soft: vec![],
                leak_latched: false,
            };
            for (k, (id, snap)) in cp.psp.iter().enumerate() {
                w.psp.insert(
                    *id,
                    Psp {
                        snap: snap.clone(),
                        order: k as u64 + 1,
                    },
                );
            }
            let r = guarded(|| -> R<()> {
                for _ in 0..4 {
                    let plan = w.plan();
                    w.run_txn(&plan)?;
                }
                w.verify_visible()
            });
            match r {
                Err(p) => return Err(format!("panic in transactions after recovery: {}", p.short())),
                Ok(Err(f)) => return Err(format!("after recovery: {}", f.text())),
                Ok(Ok(())) => {}
            }
            w.close();
        } else {
            drop(db);
        }
        // -- the closed file must be a well-formed forest
        if self.check_m2 {
            let fin = be.image();
            crate::fmt::check_image(&fin, false)
                .map_err(|e| format!("file after recovery + clean close is malformed: {e}"))?;
            self.stats.m2_checked += 1;
        }
        let v = be.take_violations();
        if !v.is_empty() {
            return Err(format!("backend contract violated during recovery: {}", v.join("; ")));
        }
        // -- crash during the recovery itself
        if want_rec && rec_len > 0 {
            let (base, log): (Vec<u8>, Vec<Ev>) = {
                let st = be.lock();
                (st.base.clone(), st.log[..rec_len.min(st.log.len())].to_vec())
            };
            let mut en = Enumerator::new(&base, &log, CrashBudget::recursion(), self.seed ^ 0x5151);
            let mut err: Option<String> = None;
            let mut inner: Vec<(CrashImage, Vec<u8>)> = vec![];
            en.run(1, log.len(), &mut |ci2, img2| {
                inner.push((ci2.clone(), img2));
                inner.len() < self.rec_cap
            });
            for (ci2, img2) in inner {
                if let Err(e) = self.check_in_window(&ci2, img2, level + 1, floor, ceil) {
                    err = Some(format!(
                        "crash during recovery (level {}) at recovery-log position {}: {e}",
                        level + 1,
                        ci2.pos
                    ));
                    break;
                }
            }
            if let Some(e) = err {
                return Err(e);
            }
        }
        let _ = Arc::strong_count(&cp.contents);
        Ok(())
    }
}
