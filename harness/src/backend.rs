//! M1 -- MonitorBackend: an in-memory `StorageBackend` that records the storage-operation stream,
//! asserts the backend contract online (C20), can fail the k-th call (C08), and keeps enough
//! information to reconstruct crash images (C01).

use redb::StorageBackend;
use std::fmt::{Debug, Formatter};
use std::io;
use std::sync::{Arc, Mutex, MutexGuard};

#[derive(Clone, Debug, PartialEq, Eq)]
pub enum Ev {
    Write { off: u64, data: Box<[u8]> },
    SetLen(u64),
    Sync,
}

/// see `sync_data`: bounded-progress budget per storage object
pub const SYNC_BUDGET: u64 = 60_000;
pub const K_LEN: u8 = 1;
pub const K_READ: u8 = 2;
pub const K_WRITE: u8 = 4;
pub const K_SETLEN: u8 = 8;
pub const K_SYNC: u8 = 16;
pub const K_ANY: u8 = 31;

pub fn kind_name(k: u8) -> &'static str {
    match k {
        K_LEN => "len",
        K_READ => "read",
        K_WRITE => "write",
        K_SETLEN => "set_len",
        K_SYNC => "sync",
        K_ANY => "any",
        _ => "mixed",
    }
}

#[derive(Clone, Copy, Debug, Default)]
pub struct Fault {
    /// fail the `at`-th (0-based) call among calls whose kind is in `mask`
    pub at: u64,
    pub mask: u8,
    pub permanent: bool,
    pub armed: bool,
    pub fired: u64,
    seen: u64,
}

impl Fault {
    pub fn new(at: u64, mask: u8, permanent: bool) -> Self {
        Fault {
            at,
            mask,
            permanent,
            armed: true,
            fired: 0,
            seen: 0,
        }
    }
}

/// A callback computing the protected byte ranges (pages reachable from the durable commit) from the
/// durable image. Installed by checks that want the copy-on-write assertion.
pub type ProtectFn = Arc<dyn Fn(&[u8]) -> Option<Vec<(u64, u64)>> + Send + Sync>;

/// What a sync hook reports about the durable image at a completed sync_data
#[derive(Default)]
pub struct SyncVerdict {
    pub protected: Option<Vec<(u64, u64)>>,
    /// the durable image is not a well-formed committed forest (C10)
    pub error: Option<String>,
    /// observations: keys starting with "max." keep the maximum, others are summed
    pub obs: Vec<(String, u64)>,
}
pub type SyncHook = Arc<dyn Fn(&[u8]) -> SyncVerdict + Send + Sync>;

#[derive(Default)]
pub struct Counts {
    pub len: u64,
    pub read: u64,
    pub write: u64,
    pub set_len: u64,
    pub sync: u64,
    pub close: u64,
    pub bytes_written: u64,
}

pub struct State {
    pub data: Vec<u8>,
    /// recorded mutating operations since `base`
    pub log: Vec<Ev>,
    /// image at the time recording started
    pub base: Vec<u8>,
    pub record: bool,
    /// harness markers: (log position, marker text)
    pub marks: Vec<(usize, String)>,
    pub counts: Counts,
    pub closed: bool,
    /// C20 online assertion failures
    pub violations: Vec<String>,
    pub read_only_expected: bool,
    /// close() reports an error (and closes all the same)
    pub fail_close: bool,
    pub fault: Fault,
    /// total calls of any kind (for sizing fault enumeration)
    pub calls: u64,
    pub calls_by_kind: [u64; 5],
    /// copy-on-write guard
    pub protect: Option<ProtectFn>,
    pub protected: Vec<(u64, u64)>,
    pub protected_max: u64,
    pub protect_evals: u64,
    pub protect_failed_decodes: u64,
    /// whether out-of-bounds reads are reported as contract violations (off while running over
    /// deliberately corrupted images, see DESIGN C20/C12 boundary)
    pub judge_bounds: bool,
    pub name: String,
    pub sync_hook: Option<SyncHook>,
    pub sync_errors: Vec<String>,
    pub sync_obs: std::collections::BTreeMap<String, u64>,
}

pub struct Inner {
    st: Mutex<State>,
    /// read calls that have entered the backend and not yet returned; counted by the monitor itself,
    /// incremented on entry (before the state lock) and decremented while the state lock is still
    /// held, so close() -- which takes the same lock -- sees 0 unless a call really overlaps it
    in_flight_reads: std::sync::atomic::AtomicU64,
    /// simulated device latency of read(): the call has been made, the data is not yet accessed
    slow_read_us: std::sync::atomic::AtomicU64,
}

struct ReadInFlight<'a>(&'a std::sync::atomic::AtomicU64);
impl Drop for ReadInFlight<'_> {
    fn drop(&mut self) {
        self.0.fetch_sub(1, std::sync::atomic::Ordering::SeqCst);
    }
}

#[derive(Clone)]
pub struct MonBackend {
    inner: Arc<Inner>,
}

impl Debug for MonBackend {
    fn fmt(&self, f: &mut Formatter<'_>) -> std::fmt::Result {
        write!(f, "MonBackend")
    }
}

fn injected() -> io::Error {
    io::Error::other("rv: injected storage failure")
}

pub fn is_injected(e: &io::Error) -> bool {
    e.to_string().contains("rv: injected storage failure")
}

impl MonBackend {
    pub fn new() -> Self {
        Self::from_image(Vec::new())
    }

    pub fn from_image(data: Vec<u8>) -> Self {
        MonBackend {
            inner: Arc::new(Inner {
                st: Mutex::new(State {
                    base: Vec::new(),
                    data,
                    log: Vec::new(),
                    record: false,
                    marks: Vec::new(),
                    counts: Counts::default(),
                    closed: false,
                    violations: Vec::new(),
                    read_only_expected: false,
                    fail_close: false,
                    fault: Fault::default(),
                    calls: 0,
                    calls_by_kind: [0; 5],
                    protect: None,
                    protected: Vec::new(),
                    protected_max: 0,
                    protect_evals: 0,
                    protect_failed_decodes: 0,
                    judge_bounds: true,
                    name: String::new(),
                    sync_hook: None,
                    sync_errors: Vec::new(),
                    sync_obs: std::collections::BTreeMap::new(),
                }),
                in_flight_reads: std::sync::atomic::AtomicU64::new(0),
                slow_read_us: std::sync::atomic::AtomicU64::new(0),
            }),
        }
    }

    /// every read() from now on takes at least `us` microseconds before it touches the data
    pub fn set_slow_reads(&self, us: u64) {
        self.inner.slow_read_us.store(us, std::sync::atomic::Ordering::SeqCst);
    }

    pub fn lock(&self) -> MutexGuard<'_, State> {
        self.inner.st.lock().unwrap_or_else(|e| e.into_inner())
    }

    pub fn image(&self) -> Vec<u8> {
        self.lock().data.clone()
    }

    pub fn start_recording(&self) {
        let mut st = self.lock();
        st.base = st.data.clone();
        st.log.clear();
        st.marks.clear();
        st.record = true;
    }

    pub fn mark(&self, text: impl Into<String>) {
        let mut st = self.lock();
        if st.record {
            let pos = st.log.len();
            st.marks.push((pos, text.into()));
        }
    }

    pub fn log_len(&self) -> usize {
        self.lock().log.len()
    }

    pub fn set_fault(&self, f: Fault) {
        self.lock().fault = f;
    }

    pub fn clear_fault(&self) {
        self.lock().fault.armed = false;
    }

    pub fn set_protect(&self, f: ProtectFn) {
        let mut st = self.lock();
        st.protect = Some(f);
    }

    pub fn set_sync_hook(&self, h: SyncHook) {
        self.lock().sync_hook = Some(h);
    }

    pub fn take_sync_errors(&self) -> Vec<String> {
        std::mem::take(&mut self.lock().sync_errors)
    }

    pub fn take_violations(&self) -> Vec<String> {
        std::mem::take(&mut self.lock().violations)
    }

    pub fn close_count(&self) -> u64 {
        self.lock().counts.close
    }

    fn enter(st: &mut State, kind_bit: u8, what: &str) -> Result<(), io::Error> {
        st.calls += 1;
        st.calls_by_kind[kind_bit.trailing_zeros() as usize] += 1;
        if st.closed {
            let n = st.name.clone();
            st.violations
                .push(format!("backend[{n}] {what} called after close()"));
        }
        if st.read_only_expected && (kind_bit & (K_WRITE | K_SETLEN | K_SYNC)) != 0 {
            let n = st.name.clone();
            st.violations.push(format!(
                "backend[{n}] read-only database called {what}"
            ));
        }
        if st.fault.armed && (st.fault.mask & kind_bit) != 0 {
            let idx = st.fault.seen;
            st.fault.seen += 1;
            if idx == st.fault.at || (st.fault.permanent && idx > st.fault.at) {
                st.fault.fired += 1;
                return Err(injected());
            }
        }
        Ok(())
    }
}

impl Default for MonBackend {
    fn default() -> Self {
        Self::new()
    }
}

fn overlaps(ranges: &[(u64, u64)], start: u64, end: u64) -> Option<(u64, u64)> {
    // ranges sorted by start, disjoint
    let idx = ranges.partition_point(|r| r.1 <= start);
    if idx < ranges.len() && ranges[idx].0 < end {
        Some(ranges[idx])
    } else {
        None
    }
}

impl StorageBackend for MonBackend {
    fn len(&self) -> Result<u64, io::Error> {
        let mut st = self.lock();
        st.counts.len += 1;
        Self::enter(&mut st, K_LEN, "len")?;
        Ok(st.data.len() as u64)
    }

    fn read(&self, offset: u64, out: &mut [u8]) -> Result<(), io::Error> {
        self.inner.in_flight_reads.fetch_add(1, std::sync::atomic::Ordering::SeqCst);
        let us = self.inner.slow_read_us.load(std::sync::atomic::Ordering::Relaxed);
        if us > 0 {
            std::thread::sleep(std::time::Duration::from_micros(us));
        }
        let mut st = self.lock();
        // declared after `st`: dropped (decremented) before the state lock is released
        let _in_flight = ReadInFlight(&self.inner.in_flight_reads);
        st.counts.read += 1;
        Self::enter(&mut st, K_READ, "read")?;
        let end = offset.checked_add(out.len() as u64);
        match end {
            Some(end) if end <= st.data.len() as u64 => {
                out.copy_from_slice(&st.data[offset as usize..end as usize]);
                Ok(())
            }
            _ => {
                if st.judge_bounds {
                    let n = st.name.clone();
                    let l = st.data.len();
                    st.violations.push(format!(
                        "backend[{n}] read of {} bytes at offset {offset} beyond length {l}",
                        out.len()
                    ));
                }
                Err(io::Error::new(
                    io::ErrorKind::UnexpectedEof,
                    "rv: read beyond end of storage",
                ))
            }
        }
    }

    fn set_len(&self, len: u64) -> Result<(), io::Error> {
        let mut st = self.lock();
        st.counts.set_len += 1;
        Self::enter(&mut st, K_SETLEN, "set_len")?;
        if len < st.protected_max {
            let n = st.name.clone();
            let m = st.protected_max;
            st.violations.push(format!(
                "backend[{n}] set_len({len}) below a page still used by the durable commit (needs {m})"
            ));
        }
        st.data.resize(len as usize, 0);
        if st.record {
            st.log.push(Ev::SetLen(len));
        }
        Ok(())
    }

    fn sync_data(&self) -> Result<(), io::Error> {
        let mut st = self.lock();
        st.counts.sync += 1;
        if st.counts.sync > SYNC_BUDGET {
            // A logical-step bound instead of a wall clock: the small databases of the checks need
            // tens of syncs per API call and at most a few thousand per case. An API call that is
            // still issuing durable commits after this many is not making progress (livelock); the
            // backend starts failing so that the call returns and the case can report it.
            if st.counts.sync == SYNC_BUDGET + 1 {
                let n = st.name.clone();
                st.violations.push(format!(
                    "backend[{n}] no progress: more than {SYNC_BUDGET} sync_data calls on one storage in one case -- an API call keeps committing without ever finishing (livelock)"
                ));
            }
            return Err(injected());
        }
        Self::enter(&mut st, K_SYNC, "sync_data")?;
        if st.record {
            st.log.push(Ev::Sync);
        }
        if let Some(h) = st.sync_hook.clone() {
            st.protect_evals += 1;
            let v = h(&st.data);
            if let Some(e) = v.error {
                if st.sync_errors.len() < 8 {
                    let n = st.counts.sync;
                    st.sync_errors.push(format!("durable image after sync #{n}: {e}"));
                }
            }
            for (k, val) in v.obs {
                let e = st.sync_obs.entry(k.clone()).or_insert(0);
                if k.starts_with("max.") {
                    *e = (*e).max(val);
                } else {
                    *e += val;
                }
            }
            match v.protected {
                Some(mut ranges) => {
                    ranges.sort_unstable();
                    st.protected_max = ranges.iter().map(|r| r.1).max().unwrap_or(0);
                    st.protected = ranges;
                }
                None => {
                    st.protect_failed_decodes += 1;
                    st.protected.clear();
                    st.protected_max = 0;
                }
            }
        } else if let Some(p) = st.protect.clone() {
            st.protect_evals += 1;
            match p(&st.data) {
                Some(mut ranges) => {
                    ranges.sort_unstable();
                    st.protected_max = ranges.iter().map(|r| r.1).max().unwrap_or(0);
                    st.protected = ranges;
                }
                None => {
                    // image not decodable at this sync (e.g. mid-creation); keep no protection
                    st.protect_failed_decodes += 1;
                    st.protected.clear();
                    st.protected_max = 0;
                }
            }
        }
        Ok(())
    }

    fn write(&self, offset: u64, data: &[u8]) -> Result<(), io::Error> {
        let mut st = self.lock();
        st.counts.write += 1;
        Self::enter(&mut st, K_WRITE, "write")?;
        let end = offset + data.len() as u64;
        if end > st.data.len() as u64 {
            if st.judge_bounds {
                let n = st.name.clone();
                let l = st.data.len();
                st.violations.push(format!(
                    "backend[{n}] write of {} bytes at offset {offset} beyond length {l}",
                    data.len()
                ));
            }
            return Err(io::Error::new(
                io::ErrorKind::InvalidInput,
                "rv: write beyond end of storage",
            ));
        }
        if !st.protected.is_empty() {
            if let Some(r) = overlaps(&st.protected, offset, end) {
                let n = st.name.clone();
                st.violations.push(format!(
                    "backend[{n}] write [{offset},{end}) modifies bytes [{},{}) of a page reachable from the last durable commit",
                    r.0, r.1
                ));
            }
        }
        st.counts.bytes_written += data.len() as u64;
        st.data[offset as usize..end as usize].copy_from_slice(data);
        if st.record {
            st.log.push(Ev::Write {
                off: offset,
                data: data.into(),
            });
        }
        Ok(())
    }

    fn close(&self) -> Result<(), io::Error> {
        let mut st = self.lock();
        st.counts.close += 1;
        let overlapping = self.inner.in_flight_reads.load(std::sync::atomic::Ordering::SeqCst);
        if overlapping > 0 {
            let n = st.name.clone();
            st.violations.push(format!(
                "backend[{n}] close() called while {overlapping} read call(s) made before it had not returned (the backend is touched after close())"
            ));
        }
        if st.closed {
            let n = st.name.clone();
            st.violations
                .push(format!("backend[{n}] close() called more than once"));
        }
        st.closed = true;
        if st.fail_close {
            // the backend is closed all the same: the contract allows no second attempt
            return Err(injected());
        }
        Ok(())
    }
}

/// Apply one logged event to an image, with POSIX semantics for writes past the end.
pub fn apply_ev(img: &mut Vec<u8>, ev: &Ev) {
    match ev {
        Ev::Write { off, data } => {
            let end = *off as usize + data.len();
            if img.len() < end {
                img.resize(end, 0);
            }
            img[*off as usize..end].copy_from_slice(data);
        }
        Ev::SetLen(l) => img.resize(*l as usize, 0),
        Ev::Sync => {}
    }
}
