//! C10 -- every committed image is a well-formed, checksummed forest: the independent decoder (M2)
//! judges the durable image at every completed sync_data of three workload families.

use crate::checks::c01::{history, short_sig, tail};
use crate::checks::c04::{CFGS, KEY_TYPES, TDb, by_key_type, seq_case};
use crate::checks::c09::{COMBOS, mm_case};
use crate::model::*;
use crate::ops::*;
use crate::report::{Report, Tier, run_cases};
use crate::rng::{Rng, mix};
use crate::typed::*;
use crate::world::{Cfg, Opts};
use serde_json::json;
use std::collections::BTreeMap;

fn reserve_bytes<KC: Col>(
    t: &mut redb::Table<'_, KC::T, &'static [u8]>,
    m: &mut BTreeMap<Vec<u8>, Vec<u8>>,
    k: &[u8],
    v: &[u8],
) -> R<()> {
    n_insert_reserve::<KC>(t, m, k, v)
}

pub fn run(rep: &Report) {
    rep.set_rule(
        "case = one workload on a monitoring backend whose sync hook hands the durable bytes, at every completed sync_data (so after every durable commit, every phase of a two-phase commit, every growth, and the clean close), to a decoder written independently of redb: header and slot checksums, region geometry from the file length, every page inside its region, type bytes, offset tables monotone and in-page, keys strictly increasing under the harness' own comparators, routing keys bounding both neighbours, all leaves at one depth, stored lengths (commit slot, table definitions, subtrees) equal to entries present, no page referenced twice, every XXH3-128 checksum from the slot to the leaves, persistent-savepoint roots. Workload families: (a) mixed histories over normal+multimap tables with savepoints, non-durable/2PC/quick-repair commits, compaction, reopen (all system tables populated); (b) typed sequences over 10 key types; (c) multimap sequences with inline and subtree collections. evaluations = durable images decoded; distinct_nontrivial = distinct cases whose images contained a tree of depth >= 2, a subtree collection, or a persistent savepoint root",
    );
    rep.assume("key-order checks cover the built-in type grammar; user-defined key types are not generated");
    let n = match rep.tier {
        Tier::Quick => 30_000u64,
        Tier::Thorough => 1_200_000u64,
    };
    if rep.tier == Tier::Thorough {
        crate::fmt::CROSS_HASH.store(true, std::sync::atomic::Ordering::Relaxed);
    }
    run_cases(
        rep,
        n,
        |case| {
            let replay = json!({"check": "C10", "seed": rep.seed, "case": case, "tier": rep.tier.name()});
            let fam = case % 3;
            let trace_on = rep.replay_only.is_some() || rep.want_sample();
            let mut trace: Option<Vec<String>> = if trace_on { Some(vec![]) } else { None };
            let (obs, sync_errors, api_err, desc): (BTreeMap<String, u64>, Vec<String>, Option<String>, String) = match fam {
                0 => {
                    let mut o = Opts::default();
                    o.max_ops = 30;
                    match history(rep.seed, "C10", case, o, trace_on, 16) {
                        Err(e) => (BTreeMap::new(), vec![], Some(e), "history".into()),
                        Ok(mut h) => {
                            h.world.close();
                            let e = h.api_error.as_ref().map(|f| f.text().to_string());
                            trace = h.world.trace.take();
                            (
                                std::mem::take(&mut h.world.sync_obs),
                                std::mem::take(&mut h.world.sync_errors),
                                e,
                                format!("history cfg {:?} steps {}", h.world.cfg, h.steps),
                            )
                        }
                    }
                }
                1 => {
                    let mut rng = Rng::for_case(rep.seed, "C10seq", case);
                    let kt = rng.usize(KEY_TYPES.len());
                    let vt = rng.usize(2);
                    let (p, r, c) = CFGS[rng.usize(CFGS.len())];
                    let cfg = Cfg { page_size: p, region_pages: r, cache: c };
                    match TDb::create(cfg.clone(), true) {
                        Err(e) => (BTreeMap::new(), vec![], Some(e.text().to_string()), "create".into()),
                        Ok(mut tdb) => {
                            let r = by_key_type!(kt, vt, seq_case, &mut tdb, &mut rng, &mut trace);
                            tdb.close();
                            (tdb.obs, tdb.sync_errors, r.err().map(|f| f.text().to_string()), format!("typed sequence key={} cfg {:?}", KEY_TYPES[kt], cfg))
                        }
                    }
                }
                _ => {
                    let mut rng = Rng::for_case(rep.seed, "C10mm", case);
                    let combo = rng.usize(6);
                    let (p, r, c) = CFGS[rng.usize(6)];
                    let cfg = Cfg { page_size: p, region_pages: r, cache: c };
                    match TDb::create(cfg.clone(), true) {
                        Err(e) => (BTreeMap::new(), vec![], Some(e.text().to_string()), "create".into()),
                        Ok(mut tdb) => {
                            let r = match combo {
                                0 => mm_case::<ColU64, ColU64>(&mut tdb, &mut rng, &mut trace),
                                1 => mm_case::<ColU64, ColBytes>(&mut tdb, &mut rng, &mut trace),
                                2 => mm_case::<ColU64, ColStr>(&mut tdb, &mut rng, &mut trace),
                                3 => mm_case::<ColStr, ColU64>(&mut tdb, &mut rng, &mut trace),
                                4 => mm_case::<ColStr, ColBytes>(&mut tdb, &mut rng, &mut trace),
                                _ => mm_case::<ColStr, ColStr>(&mut tdb, &mut rng, &mut trace),
                            };
                            tdb.close();
                            (tdb.obs, tdb.sync_errors, r.err().map(|f| f.text().to_string()), format!("multimap sequence types={} cfg {:?}", COMBOS[combo], cfg))
                        }
                    }
                }
            };
            let images = obs.get("images_decoded").copied().unwrap_or(0);
            rep.eval(images);
            rep.count(["cases.history", "cases.typed", "cases.multimap"][fam as usize], 1);
            for (k, v) in &obs {
                if k.starts_with("max.") {
                    rep.count_max(&format!("m2.{k}"), *v);
                } else {
                    rep.count(&format!("m2.{k}"), *v);
                }
            }
            if let Some(e) = sync_errors.first() {
                rep.violation(
                    format!("format:{}", short_sig(e)),
                    format!("case {case} ({desc}): {e}; trace tail {:?}", tail(&trace)),
                    replay.clone(),
                );
            }
            if let Some(e) = api_err {
                // a behavioural mismatch belongs to C04/C09/C01; it still stops this case
                rep.violation(
                    format!("api:{}", short_sig(&e)),
                    format!("case {case} ({desc}): {e}; trace tail {:?}", tail(&trace)),
                    replay.clone(),
                );
            }
            let depth = obs.get("max.user_tree_depth").copied().unwrap_or(0);
            let sub = obs.get("subtree_collections").copied().unwrap_or(0);
            let spr = obs.get("savepoint_roots_walked").copied().unwrap_or(0);
            if images >= 2 && (depth >= 2 || sub > 0 || spr > 0) {
                rep.distinct(mix(case, depth << 32 | sub.min(0xffff) << 8 | spr.min(0xff)));
            }
            if rep.want_sample() && images > 0 {
                rep.sample(json!({"case": case, "workload": desc, "durable_images_decoded": images,
                    "max_user_tree_depth": depth, "subtree_collections": sub, "savepoint_roots": spr,
                    "trace_head": trace.as_ref().map(|t| t.iter().take(20).cloned().collect::<Vec<_>>())}));
            }
        },
        |case, p| {
            rep.violation(
                format!("panic:{}", p.location),
                format!("case {case}: {}", p.short()),
                json!({"check": "C10", "seed": rep.seed, "case": case, "tier": rep.tier.name()}),
            );
        },
    );
}
