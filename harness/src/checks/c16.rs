//! C16 -- one write transaction used from many threads: per-table streams applied concurrently,
//! concurrent ephemeral_savepoint() calls and Savepoint drops, then commit or abort; judged by
//! per-table models, the ownership accountant (M3), the decoder (M2, no page in two trees) and later
//! restores of the surviving savepoints.

use crate::backend::MonBackend;
use crate::checks::c01::short_sig;
use crate::report::{Report, Tier, guarded, run_cases};
use crate::rng::{Rng, mix};
use crate::sched::*;
use crate::world::Cfg;
use redb::{
    Database, Durability, MultimapTableDefinition, ReadableDatabase, ReadableMultimapTable, ReadableTable, ReadableTableMetadata, Savepoint,
    SavepointError, TableDefinition, WriteTransaction,
};
use serde_json::json;
use std::collections::{BTreeMap, BTreeSet};
use std::sync::atomic::{AtomicBool, AtomicU64, Ordering};
use std::sync::{Arc, Mutex};
use std::time::Duration;

const NAMES: [&str; 6] = ["t0", "t1", "t2", "t3", "t4", "t5"];

fn tdef(i: usize) -> TableDefinition<'static, u64, &'static [u8]> {
    TableDefinition::new(NAMES[i])
}
fn mdef(i: usize) -> MultimapTableDefinition<'static, u64, &'static [u8]> {
    MultimapTableDefinition::new(NAMES[i])
}

/// table contents; a plain table is a multimap with at most one value per key
type Model = BTreeMap<u64, BTreeSet<Vec<u8>>>;

#[derive(Clone)]
struct Tab {
    idx: usize,
    multimap: bool,
    model: Model,
}

fn value(rng: &mut Rng, big: bool) -> Vec<u8> {
    let len = if big && rng.chance(1, 6) {
        rng.range(600, 2600)
    } else {
        rng.range(0, 120)
    } as usize;
    let b = rng.below(256) as u8;
    let mut v = vec![b; len];
    if len >= 8 {
        let tag = rng.next().to_le_bytes();
        v[..8].copy_from_slice(&tag);
    }
    v
}

/// apply `n` random operations to the table `tab` through `txn`, mirroring them into `tab.model`
fn stream(txn: &WriteTransaction, tab: &mut Tab, rng: &mut Rng, n: u64, keyspace: u64, opened: &AtomicBool, open_started: &AtomicBool) -> Result<u64, String> {
    let mut ops = 0u64;
    open_started.store(true, Ordering::SeqCst);
    if tab.multimap {
        let mut t = txn.open_multimap_table(mdef(tab.idx)).map_err(|e| format!("open_multimap_table: {e}"))?;
        opened.store(true, Ordering::SeqCst);
        for _ in 0..n {
            let k = rng.below(keyspace);
            match rng.below(10) {
                0..=5 => {
                    let v = value(rng, false);
                    let had = t.insert(k, v.as_slice()).map_err(|e| e.to_string())?;
                    let m_had = !tab.model.entry(k).or_default().insert(v);
                    if had != m_had {
                        return Err(format!("multimap {} insert({k}) returned {had}, model says {m_had}", NAMES[tab.idx]));
                    }
                }
                6 | 7 => {
                    let v = tab.model.get(&k).and_then(|s| s.iter().next().cloned()).unwrap_or_else(|| value(rng, false));
                    let had = t.remove(k, v.as_slice()).map_err(|e| e.to_string())?;
                    let m_had = tab.model.get_mut(&k).map(|s| s.remove(&v)).unwrap_or(false);
                    if tab.model.get(&k).map(|s| s.is_empty()).unwrap_or(false) {
                        tab.model.remove(&k);
                    }
                    if had != m_had {
                        return Err(format!("multimap {} remove({k}) returned {had}, model says {m_had}", NAMES[tab.idx]));
                    }
                }
                8 => {
                    let mut got = BTreeSet::new();
                    for v in t.remove_all(k).map_err(|e| e.to_string())? {
                        got.insert(v.map_err(|e| e.to_string())?.value().to_vec());
                    }
                    let want = tab.model.remove(&k).unwrap_or_default();
                    if got != want {
                        return Err(format!("multimap {} remove_all({k}) returned {} values, model has {}", NAMES[tab.idx], got.len(), want.len()));
                    }
                }
                _ => {
                    let mut got = BTreeSet::new();
                    for v in t.get(k).map_err(|e| e.to_string())? {
                        got.insert(v.map_err(|e| e.to_string())?.value().to_vec());
                    }
                    let want = tab.model.get(&k).cloned().unwrap_or_default();
                    if got != want {
                        return Err(format!("multimap {} get({k}) inside the transaction differs from the thread's own writes", NAMES[tab.idx]));
                    }
                }
            }
            ops += 1;
        }
    } else {
        let mut t = txn.open_table(tdef(tab.idx)).map_err(|e| format!("open_table: {e}"))?;
        opened.store(true, Ordering::SeqCst);
        for _ in 0..n {
            let k = rng.below(keyspace);
            match rng.below(12) {
                0..=5 => {
                    let v = value(rng, true);
                    let old = t.insert(k, v.as_slice()).map_err(|e| e.to_string())?.map(|g| g.value().to_vec());
                    let m_old = tab.model.insert(k, BTreeSet::from([v])).and_then(|s| s.into_iter().next());
                    if old != m_old {
                        return Err(format!("table {} insert({k}) returned a different old value than the thread's own model", NAMES[tab.idx]));
                    }
                }
                6 | 7 => {
                    let old = t.remove(k).map_err(|e| e.to_string())?.map(|g| g.value().to_vec());
                    let m_old = tab.model.remove(&k).and_then(|s| s.into_iter().next());
                    if old != m_old {
                        return Err(format!("table {} remove({k}) returned a different value than the thread's own model", NAMES[tab.idx]));
                    }
                }
                8 => {
                    let got = t.pop_first().map_err(|e| e.to_string())?.map(|(k, v)| (k.value(), v.value().to_vec()));
                    let want = tab.model.keys().next().copied().map(|k| {
                        let v = tab.model.remove(&k).unwrap().into_iter().next().unwrap();
                        (k, v)
                    });
                    if got != want {
                        return Err(format!("table {} pop_first() differs from the thread's own model", NAMES[tab.idx]));
                    }
                }
                9 => {
                    let lo = rng.below(keyspace);
                    let hi = lo + rng.below(keyspace / 4 + 1);
                    t.retain_in(lo..hi, |k, _| k % 3 == 0).map_err(|e| e.to_string())?;
                    tab.model.retain(|k, _| !(lo..hi).contains(k) || k % 3 == 0);
                }
                10 => {
                    let got = t.get(k).map_err(|e| e.to_string())?.map(|g| g.value().to_vec());
                    let want = tab.model.get(&k).and_then(|s| s.iter().next().cloned());
                    if got != want {
                        return Err(format!("table {} get({k}) inside the transaction differs from the thread's own writes", NAMES[tab.idx]));
                    }
                }
                _ => {
                    let l = t.len().map_err(|e| e.to_string())?;
                    if l != tab.model.len() as u64 {
                        return Err(format!("table {} len() is {l}, the thread's own model has {}", NAMES[tab.idx], tab.model.len()));
                    }
                }
            }
            ops += 1;
        }
    }
    Ok(ops)
}

fn dump(db: &Database, tabs: &[Tab]) -> Result<Vec<Model>, String> {
    let rt = db.begin_read().map_err(|e| e.to_string())?;
    let mut out = vec![];
    for tab in tabs {
        let mut m = Model::new();
        if tab.multimap {
            match rt.open_multimap_table(mdef(tab.idx)) {
                Ok(t) => {
                    for e in t.iter().map_err(|e| e.to_string())? {
                        let (k, vs) = e.map_err(|e| e.to_string())?;
                        for v in vs {
                            m.entry(k.value()).or_default().insert(v.map_err(|e| e.to_string())?.value().to_vec());
                        }
                    }
                }
                Err(redb::TableError::TableDoesNotExist(_)) => {}
                Err(e) => return Err(e.to_string()),
            }
        } else {
            match rt.open_table(tdef(tab.idx)) {
                Ok(t) => {
                    for e in t.iter().map_err(|e| e.to_string())? {
                        let (k, v) = e.map_err(|e| e.to_string())?;
                        if m.insert(k.value(), BTreeSet::from([v.value().to_vec()])).is_some() {
                            return Err(format!("table {} yields key {} twice", NAMES[tab.idx], k.value()));
                        }
                    }
                }
                Err(redb::TableError::TableDoesNotExist(_)) => {}
                Err(e) => return Err(e.to_string()),
            }
        }
        out.push(m);
    }
    Ok(out)
}

fn diff(got: &[Model], want: &[Model], tabs: &[Tab]) -> Option<String> {
    for (i, tab) in tabs.iter().enumerate() {
        if got[i] != want[i] {
            let only_got = got[i].keys().filter(|k| !want[i].contains_key(k)).count();
            let only_want = want[i].keys().filter(|k| !got[i].contains_key(k)).count();
            let differing = got[i].iter().filter(|(k, v)| want[i].get(k).map(|w| w != *v).unwrap_or(false)).count();
            return Some(format!(
                "table {} ({}): {} unexpected keys, {} missing keys, {} keys with different values",
                NAMES[tab.idx],
                if tab.multimap { "multimap" } else { "table" },
                only_got,
                only_want,
                differing
            ));
        }
    }
    None
}

#[derive(Clone, Copy, Debug, PartialEq, Eq)]
enum Mode {
    /// free-running threads with jitter
    Stress,
    /// a worker parked inside its first table open, ephemeral_savepoint() called meanwhile
    OpenVsSavepoint(&'static str),
    /// ephemeral_savepoint() parked at a point, a worker opens its table meanwhile
    SavepointVsOpen(&'static str),
    /// commit parked at a point, a Savepoint dropped meanwhile
    CommitVsDrop(&'static str),
    /// Savepoint::drop parked mid-way, commit runs meanwhile
    DropVsCommit,
}

struct SpRec {
    sp: Savepoint,
    /// index into `states`: what restoring this savepoint must bring back
    state: usize,
    label: &'static str,
}

struct CaseOut {
    violation: Option<String>,
    inconclusive: Option<String>,
    ops: u64,
    sp_ok: u64,
    sp_refused: u64,
    sp_dropped_concurrently: u64,
    restored: u64,
    intruder: &'static str,
    committed: bool,
    threads: u64,
    parked: bool,
}

fn one_case(seed: u64, case: u64, mode: Mode) -> CaseOut {
    let mut rng = Rng::for_case(seed, "C16", case);
    let mut out = CaseOut {
        violation: None,
        inconclusive: None,
        ops: 0,
        sp_ok: 0,
        sp_refused: 0,
        sp_dropped_concurrently: 0,
        restored: 0,
        intruder: "-",
        committed: false,
        threads: 0,
        parked: false,
    };
    let cfg = Cfg {
        page_size: *rng.pick(&[512usize, 512, 1024]),
        region_pages: *rng.pick(&[Some(32u64), Some(64), Some(256)]),
        cache: *rng.pick(&[0usize, 8192, 1 << 20]),
    };
    let be = MonBackend::new();
    let tiny = crate::report::tiny() > 0;
    if !tiny {
        be.set_sync_hook(crate::fmt::sync_hook(false));
    }
    let db = match cfg.builder().create_with_backend(be.clone()) {
        Ok(d) => d,
        Err(e) => {
            out.violation = Some(format!("create: {e}"));
            return out;
        }
    };
    let ntab = if tiny { 2 } else { rng.range(2, 6) as usize };
    let keyspace = *rng.pick(&[12u64, 40, 200]);
    let mut tabs: Vec<Tab> = (0..ntab).map(|i| Tab { idx: i, multimap: rng.chance(1, 3), model: Model::new() }).collect();
    macro_rules! tri {
        ($e:expr, $what:expr) => {
            match $e {
                Ok(v) => v,
                Err(e) => {
                    out.violation = Some(format!("{}: {e}", $what));
                    return out;
                }
            }
        };
    }
    let never = AtomicBool::new(false);
    // states[0]: after the first population; states[1]: after the second
    let mut states: Vec<Vec<Model>> = vec![];
    let mut pool: Vec<SpRec> = vec![];
    for round in 0..2 {
        let mut txn = tri!(db.begin_write(), "begin_write");
        if round == 1 {
            // savepoints that exist before the shared transaction (their state: states[0])
            let n_older = match mode {
                Mode::OpenVsSavepoint("set_dirty.before_disable") => 0,
                Mode::CommitVsDrop(_) | Mode::DropVsCommit => rng.range(1, 3),
                _ => rng.below(3),
            };
            for _ in 0..n_older {
                let sp = tri!(txn.ephemeral_savepoint(), "ephemeral_savepoint");
                pool.push(SpRec { sp, state: 0, label: "older" });
            }
        }
        for tab in tabs.iter_mut() {
            if rng.chance(3, 4) {
                tri!(stream(&txn, tab, &mut rng, if tiny { 5 } else { 25 }, keyspace, &never, &never), "populate");
            }
        }
        if rng.chance(1, 3) {
            tri!(txn.set_durability(Durability::None), "set_durability");
        }
        tri!(txn.commit(), "commit");
        states.push(tabs.iter().map(|t| t.model.clone()).collect());
    }
    let base_state = 1usize;

    // ---- the shared transaction
    let ctl = Ctl::new();
    ctl.set_jitter(true);
    let txn = tri!(db.begin_write(), "begin_write");
    // 0 abort, 1 non-durable, 2 2pc, 3 quick-repair, 4.. durable
    let commit_kind = match mode {
        Mode::CommitVsDrop(p) if p.starts_with("commit.nondurable") => 1,
        Mode::CommitVsDrop(_) => rng.range(2, 6),
        Mode::DropVsCommit => rng.range(1, 6),
        _ => rng.below(6),
    };
    if matches!(mode, Mode::CommitVsDrop(_) | Mode::DropVsCommit) && rng.chance(1, 2) {
        // a savepoint of the shared transaction itself, taken before any table is opened
        let sp = tri!(txn.ephemeral_savepoint(), "ephemeral_savepoint");
        pool.push(SpRec { sp, state: base_state, label: "created-in-shared-txn" });
    }
    let opened = AtomicBool::new(false);
    let open_started = AtomicBool::new(false);
    let viol: Mutex<Option<String>> = Mutex::new(None);
    let pool = Mutex::new(pool);
    let ops = AtomicU64::new(0);
    let sp_ok = AtomicU64::new(0);
    let sp_refused = AtomicU64::new(0);
    let sp_dropped = AtomicU64::new(0);
    let stop = AtomicBool::new(false);
    let per_thread = if tiny { 6 } else { rng.range(10, 90) };
    let n_sp_threads = if matches!(mode, Mode::Stress) { rng.range(1, 3) } else { 0 };
    let sp_calls = rng.range(1, 5);
    let worker_head_start = rng.chance(1, 3);
    let start_delay_us: Vec<u64> = (0..ntab + 4).map(|_| if worker_head_start { rng.below(100) } else { 150 + rng.below(900) }).collect();
    out.threads = ntab as u64 + n_sp_threads + 1;
    // scripted part 1: worker 0 parked inside its open, or the savepoint call parked
    match mode {
        Mode::OpenVsSavepoint(p) => ctl.set_trap(Trap { role: 100, point: p, nth: 0 }),
        Mode::SavepointVsOpen(p) => ctl.set_trap(Trap { role: 200, point: p, nth: 0 }),
        _ => {}
    }
    let new_models: Mutex<Vec<Option<Model>>> = Mutex::new(vec![None; ntab]);
    std::thread::scope(|s| {
        let mut worker_handles = vec![];
        for (i, tab) in tabs.iter().enumerate() {
            let mut tab = tab.clone();
            let (txn, ctl, viol, ops, opened, open_started, new_models) = (&txn, ctl.clone(), &viol, &ops, &opened, &open_started, &new_models);
            let delay = start_delay_us[i];
            let scripted_second = matches!(mode, Mode::SavepointVsOpen(_));
            worker_handles.push(s.spawn(move || {
                enter(100 + i as u32, &ctl, seed ^ case);
                let mut r = Rng::new(mix(seed ^ case, 7000 + i as u64));
                if scripted_second {
                    // wait until the savepoint call is parked (or finished)
                    let _ = ctl.wait_parked(&|| false, Duration::from_millis(300));
                } else {
                    std::thread::sleep(Duration::from_micros(delay));
                }
                let res = guarded(|| stream(txn, &mut tab, &mut r, per_thread, keyspace, opened, open_started));
                match res {
                    Ok(Ok(n)) => {
                        ops.fetch_add(n, Ordering::Relaxed);
                        new_models.lock().unwrap()[i] = Some(tab.model);
                    }
                    Ok(Err(e)) => {
                        viol.lock().unwrap().get_or_insert(format!("thread of table {}: {e}", NAMES[i]));
                    }
                    Err(p) => {
                        viol.lock().unwrap().get_or_insert(format!("thread of table {}: panic: {}", NAMES[i], p.short()));
                    }
                }
                leave();
            }));
        }
        // savepoint creators
        let sp_thread = |role: u32, calls: u64, wait_for_park: bool| {
            let (txn, ctl, viol, pool, opened, open_started, sp_ok, sp_refused) = (&txn, ctl.clone(), &viol, &pool, &opened, &open_started, &sp_ok, &sp_refused);
            move || {
                enter(role, &ctl, seed ^ case);
                let mut r = Rng::new(mix(seed ^ case, 9000 + u64::from(role)));
                if wait_for_park {
                    let _ = ctl.wait_parked(&|| false, Duration::from_millis(300));
                }
                for c in 0..calls {
                    if !wait_for_park && c > 0 {
                        std::thread::sleep(Duration::from_micros(r.below(400)));
                    }
                    let opened_before = opened.load(Ordering::SeqCst);
                    let res = guarded(|| txn.ephemeral_savepoint());
                    let started_after = open_started.load(Ordering::SeqCst);
                    match res {
                        Ok(Ok(sp)) => {
                            sp_ok.fetch_add(1, Ordering::Relaxed);
                            if opened_before {
                                viol.lock().unwrap().get_or_insert(
                                    "ephemeral_savepoint() succeeded although a table of the transaction had already been opened (the transaction was dirty)".to_string(),
                                );
                            }
                            pool.lock().unwrap().push(SpRec { sp, state: base_state, label: "created-in-shared-txn" });
                        }
                        Ok(Err(SavepointError::InvalidSavepoint)) => {
                            sp_refused.fetch_add(1, Ordering::Relaxed);
                            if !started_after {
                                viol.lock().unwrap().get_or_insert(
                                    "ephemeral_savepoint() was refused as dirty although no table of the transaction had been opened yet".to_string(),
                                );
                            }
                        }
                        Ok(Err(e)) => {
                            viol.lock().unwrap().get_or_insert(format!("ephemeral_savepoint(): {e}"));
                        }
                        Err(p) => {
                            viol.lock().unwrap().get_or_insert(format!("ephemeral_savepoint(): panic: {}", p.short()));
                        }
                    }
                }
                leave();
            }
        };
        match mode {
            Mode::Stress => {
                for j in 0..n_sp_threads {
                    s.spawn(sp_thread(200 + j as u32, sp_calls, false));
                }
            }
            Mode::OpenVsSavepoint(_) => {
                s.spawn(sp_thread(200, 1, true));
            }
            Mode::SavepointVsOpen(_) => {
                s.spawn(sp_thread(200, 1, false));
            }
            _ => {}
        }
        // the dropper
        if matches!(mode, Mode::Stress) {
            let (ctl, pool, stop, sp_dropped) = (ctl.clone(), &pool, &stop, &sp_dropped);
            s.spawn(move || {
                enter(300, &ctl, seed ^ case);
                let mut r = Rng::new(mix(seed ^ case, 300));
                while !stop.load(Ordering::SeqCst) {
                    if r.chance(1, 3) {
                        let sp = {
                            let mut g = pool.lock().unwrap();
                            if g.is_empty() { None } else { let i = r.usize(g.len()); Some(g.swap_remove(i)) }
                        };
                        if sp.is_some() {
                            sp_dropped.fetch_add(1, Ordering::Relaxed);
                        }
                        drop(sp);
                    }
                    std::thread::sleep(Duration::from_micros(r.below(250)));
                }
                leave();
            });
        }
        // scripted modes: release the parked thread once the other side had its chance
        if matches!(mode, Mode::OpenVsSavepoint(_) | Mode::SavepointVsOpen(_)) {
            let w = ctl.wait_parked(&|| false, Duration::from_millis(400));
            if w == WaitOutcome::Parked {
                out.parked = true;
                // let the intruder run (or block) for a logical moment
                std::thread::sleep(Duration::from_millis(40));
            }
            ctl.release();
        }
        for h in worker_handles {
            let _ = h.join();
        }
        stop.store(true, Ordering::SeqCst);
    });
    out.ops = ops.load(Ordering::Relaxed);
    out.sp_ok = sp_ok.load(Ordering::Relaxed);
    out.sp_refused = sp_refused.load(Ordering::Relaxed);
    out.sp_dropped_concurrently = sp_dropped.load(Ordering::Relaxed);
    if let Some(v) = viol.lock().unwrap().take() {
        out.violation = Some(v);
        return out;
    }
    let new_models: Vec<Model> = new_models.into_inner().unwrap().into_iter().map(|m| m.unwrap_or_default()).collect();
    let mut pool = pool.into_inner().unwrap();

    // ---- commit or abort, possibly against a concurrent Savepoint drop
    let mut txn = txn;
    match commit_kind {
        1 => {
            let _ = txn.set_durability(Durability::None);
        }
        2 => txn.set_two_phase_commit(true),
        3 => txn.set_quick_repair(true),
        _ => {}
    }
    let commit_res: Result<(), String>;
    let do_end = |txn: WriteTransaction| -> Result<(), String> {
        if commit_kind == 0 {
            txn.abort().map_err(|e| format!("abort: {e}"))
        } else {
            txn.commit().map_err(|e| format!("commit: {e}"))
        }
    };
    match mode {
        Mode::CommitVsDrop(point) if !pool.is_empty() => {
            let ctl2 = Ctl::new();
            ctl2.set_trap(Trap { role: 1, point, nth: 0 });
            let done = AtomicBool::new(false);
            let victim_sp = pool.swap_remove(rng.usize(pool.len()));
            out.intruder = victim_sp.label;
            let r = std::thread::scope(|s| {
                let h = s.spawn(|| {
                    enter(1, &ctl2, seed);
                    let r = guarded(|| do_end(txn));
                    leave();
                    done.store(true, Ordering::SeqCst);
                    ctl2.cv.notify_all();
                    r
                });
                let w = ctl2.wait_parked(&|| done.load(Ordering::SeqCst), Duration::from_secs(20));
                if w == WaitOutcome::Parked {
                    let h2 = s.spawn(|| {
                        enter(2, &ctl2, seed);
                        drop(victim_sp);
                        leave();
                    });
                    // the drop either completes or waits for the commit; both are fine
                    let t0 = std::time::Instant::now();
                    while !h2.is_finished() && t0.elapsed() < Duration::from_millis(100) {
                        std::thread::sleep(Duration::from_micros(200));
                    }
                    out.sp_dropped_concurrently += 1;
                    out.parked = true;
                    ctl2.release();
                    let _ = h2.join();
                } else {
                    ctl2.release();
                    drop(victim_sp);
                }
                h.join()
            });
            commit_res = match r {
                Ok(Ok(r)) => r,
                Ok(Err(p)) => Err(format!("panic: {}", p.short())),
                Err(_) => Err("commit thread died".into()),
            };
        }
        Mode::DropVsCommit if !pool.is_empty() => {
            let ctl2 = Ctl::new();
            ctl2.set_trap(Trap { role: 2, point: "tracker.dealloc_savepoint.mid", nth: 0 });
            let done = AtomicBool::new(false);
            let victim_sp = pool.swap_remove(rng.usize(pool.len()));
            out.intruder = victim_sp.label;
            let r = std::thread::scope(|s| {
                let h2 = s.spawn(|| {
                    enter(2, &ctl2, seed);
                    drop(victim_sp);
                    leave();
                    done.store(true, Ordering::SeqCst);
                    ctl2.cv.notify_all();
                });
                let w = ctl2.wait_parked(&|| done.load(Ordering::SeqCst), Duration::from_secs(20));
                let h = s.spawn(|| {
                    enter(1, &ctl2, seed);
                    let r = guarded(|| do_end(txn));
                    leave();
                    r
                });
                if w == WaitOutcome::Parked {
                    let t0 = std::time::Instant::now();
                    while !h.is_finished() && t0.elapsed() < Duration::from_millis(100) {
                        std::thread::sleep(Duration::from_micros(200));
                    }
                    out.sp_dropped_concurrently += 1;
                    out.parked = true;
                }
                ctl2.release();
                let _ = h2.join();
                h.join()
            });
            commit_res = match r {
                Ok(Ok(r)) => r,
                Ok(Err(p)) => Err(format!("panic: {}", p.short())),
                Err(_) => Err("commit thread died".into()),
            };
        }
        _ => {
            commit_res = match guarded(|| do_end(txn)) {
                Ok(r) => r,
                Err(p) => Err(format!("panic: {}", p.short())),
            };
        }
    }
    if let Err(e) = commit_res {
        out.violation = Some(e);
        return out;
    }
    out.committed = commit_kind != 0;
    let want: Vec<Model> = if out.committed { new_models } else { states[base_state].clone() };
    states.push(want.clone());
    // ---- judge
    match dump(&db, &tabs) {
        Ok(got) => {
            if let Some(d) = diff(&got, &want, &tabs) {
                out.violation = Some(format!(
                    "after {} of a transaction whose tables were modified from {} threads: {d}",
                    if out.committed { "commit" } else { "abort" },
                    ntab
                ));
                return out;
            }
        }
        Err(e) => {
            out.violation = Some(format!("reading back: {e}"));
            return out;
        }
    }
    if let Err(e) = crate::own::account(&db, &[]) {
        if !e.starts_with("machinery") {
            out.violation = Some(format!("page accounting after the shared transaction: {e}"));
            return out;
        }
    }
    // ---- surviving savepoints must still restore what they captured
    rng.shuffle(&mut pool);
    let mut first = true;
    while let Some(rec) = pool.pop() {
        if !first && rng.chance(1, 2) {
            drop(rec);
            continue;
        }
        let mut txn = tri!(db.begin_write(), "begin_write");
        match txn.restore_savepoint(&rec.sp) {
            Ok(()) => {
                tri!(txn.commit(), "commit after restore");
                out.restored += 1;
                match dump(&db, &tabs) {
                    Ok(got) => {
                        if let Some(d) = diff(&got, &states[rec.state], &tabs) {
                            out.violation = Some(format!("restoring a savepoint ({}) after the shared transaction did not bring its state back: {d}", rec.label));
                            return out;
                        }
                    }
                    Err(e) => {
                        out.violation = Some(format!("reading back after restore: {e}"));
                        return out;
                    }
                }
                // a restore invalidates the savepoints created after the restored one; stop here
                drop(rec);
                pool.clear();
                if let Err(e) = crate::own::account(&db, &[]) {
                    if !e.starts_with("machinery") {
                        out.violation = Some(format!("page accounting after restoring a savepoint that lived through the shared transaction: {e}"));
                        return out;
                    }
                }
                break;
            }
            Err(e) => {
                if first {
                    out.violation = Some(format!("a savepoint ({}) that was never invalidated could not be restored: {e}", rec.label));
                    return out;
                }
                let _ = txn.abort();
            }
        }
        first = false;
    }
    drop(pool);
    // one more commit lets pending frees drain, then the books must balance with no pins
    {
        let txn = tri!(db.begin_write(), "begin_write");
        {
            let mut t = tri!(txn.open_table(TableDefinition::<u64, &[u8]>::new("zz")), "open_table");
            let _ = t.insert(0, [1u8].as_slice());
        }
        tri!(txn.commit(), "commit");
        let txn = tri!(db.begin_write(), "begin_write");
        tri!(txn.commit(), "commit");
    }
    if let Err(e) = crate::own::account(&db, &[]) {
        if !e.starts_with("machinery") {
            out.violation = Some(format!("page accounting after all savepoints are gone: {e}"));
            return out;
        }
    }
    let mut db = db;
    match guarded(|| db.check_integrity()) {
        Ok(Ok(true)) => {}
        Ok(Ok(false)) => {
            out.violation = Some("check_integrity() had to repair the database after the shared transaction".into());
            return out;
        }
        Ok(Err(e)) => {
            out.violation = Some(format!("check_integrity(): {e}"));
            return out;
        }
        Err(p) => {
            out.violation = Some(format!("check_integrity(): panic: {}", p.short()));
            return out;
        }
    }
    drop(db);
    let img = be.image();
    if let Err(e) = crate::fmt::check_image(&img, false) {
        out.violation = Some(format!("closed file: {e}"));
        return out;
    }
    let st = be.lock();
    if let Some(e) = st.sync_errors.first() {
        out.violation = Some(format!("format: {e}"));
    } else if let Some(e) = st.violations.first() {
        out.violation = Some(format!("backend: {e}"));
    }
    out
}

const MODES: [Mode; 10] = [
    Mode::OpenVsSavepoint("set_dirty.after_store"),
    Mode::OpenVsSavepoint("set_dirty.before_disable"),
    Mode::SavepointVsOpen("ephemeral_savepoint.after_alloc"),
    Mode::SavepointVsOpen("ephemeral_savepoint.after_dirty_check"),
    Mode::CommitVsDrop("commit.durable.after_purge"),
    Mode::CommitVsDrop("commit.durable.before_epilogue"),
    Mode::CommitVsDrop("epilogue.after_horizon"),
    Mode::CommitVsDrop("commit.durable.before_horizon"),
    Mode::CommitVsDrop("commit.nondurable.after_horizon"),
    Mode::DropVsCommit,
];

pub fn run(rep: &Report) {
    rep.set_rule(
        "Each case: 2-5 tables (plain and multimap) populated by two earlier commits, 0-2 ephemeral savepoints taken before; then ONE WriteTransaction shared by reference: one thread per table applies a random stream (insert with multi-page values, remove, pop_first, retain_in, remove_all, get, len) checked against its own model, 1-2 threads call ephemeral_savepoint() (Ok only allowed before any table open returned, refusal only after one started), a dropper thread drops savepoints, jitter at every pause point (hook H5); then abort or commit (durable 1PC/2PC/quick-repair, non-durable). Scripted modes park a worker inside its first table open (set_dirty.*) while ephemeral_savepoint() runs, park ephemeral_savepoint() after registering while a worker opens, park the commit between purge / epilogue steps while a Savepoint is dropped, and park Savepoint::drop mid-way while the commit runs. Judged: every table equals its thread's model (or the pre-state after abort); M3 accounts every page exactly once (allocated = reachable from current/durable roots, savepoints, pending frees; no page in two trees); surviving savepoints restore the state they captured and the books balance afterwards; check_integrity() is Ok(true); the closed file decodes (M2). evaluations = cases; distinct_nontrivial = distinct (mode, tables, threads, commit kind, savepoint outcomes) signatures with at least two concurrently mutating threads",
    );
    rep.assume("thread interleavings inside B-tree operations are those the OS scheduler produces under jitter and 16 cores; only the named pause points are forced");
    install_hook();
    let (n_scripted, n_stress) = match rep.tier {
        Tier::Quick => (900u64, 4_000u64),
        Tier::Thorough => (9_000u64, 60_000u64),
    };
    let t = crate::report::tiny();
    let (n_scripted, n_stress) = if t > 0 { (t, t.div_ceil(2)) } else { (n_scripted, n_stress) };
    let tiny_off = if t > 0 { rep.seed.wrapping_mul(7919) } else { 0 };
    run_cases(
        rep,
        n_scripted + n_stress,
        |case| {
            let mode = if case < n_scripted { MODES[((case + tiny_off) % MODES.len() as u64) as usize] } else { Mode::Stress };
            let o = one_case(rep.seed, case, mode);
            rep.eval(1);
            rep.count("ops_applied_concurrently", o.ops);
            rep.count("ephemeral_savepoint.ok", o.sp_ok);
            rep.count("ephemeral_savepoint.refused_dirty", o.sp_refused);
            rep.count("savepoints_dropped_concurrently", o.sp_dropped_concurrently);
            rep.count("savepoints_restored_later", o.restored);
            rep.count(if o.committed { "ended.commit" } else { "ended.abort" }, 1);
            rep.count(&format!("mode.{}", mode_name(mode)), 1);
            if o.parked {
                rep.count(&format!("parked.{}", mode_name(mode)), 1);
            }
            if o.threads >= 2 && o.ops > 0 {
                rep.distinct(mix(
                    crate::rng::hash_bytes(0, mode_name(mode).as_bytes()),
                    o.threads << 40 | o.sp_ok << 30 | o.sp_refused << 20 | o.restored << 10 | u64::from(o.committed) << 5 | (o.ops % 32),
                ));
            }
            if let Some(e) = o.inconclusive {
                rep.inconclusive(e);
            }
            let replay = json!({"check": "C16", "seed": rep.seed, "case": case, "tier": rep.tier.name()});
            if let Some(e) = o.violation {
                rep.violation(format!("{}:{}", mode_name(mode), short_sig(&e)), format!("case {case} ({mode:?}): {e}"), replay);
            } else if rep.want_sample() {
                rep.sample(json!({"mode": format!("{mode:?}"), "threads": o.threads, "ops": o.ops, "savepoints_ok": o.sp_ok, "savepoints_refused": o.sp_refused,
                    "dropped_concurrently": o.sp_dropped_concurrently, "restored_later": o.restored, "committed": o.committed, "dropped_savepoint": o.intruder}));
            }
        },
        |case, p| {
            rep.violation(
                format!("panic:{}", p.location),
                format!("case {case}: {}", p.short()),
                json!({"check": "C16", "seed": rep.seed, "case": case, "tier": rep.tier.name()}),
            );
        },
    );
}

fn mode_name(m: Mode) -> String {
    match m {
        Mode::Stress => "stress".into(),
        Mode::OpenVsSavepoint(p) => format!("open@{p}-vs-savepoint"),
        Mode::SavepointVsOpen(p) => format!("savepoint@{p}-vs-open"),
        Mode::CommitVsDrop(p) => format!("commit@{p}-vs-savepoint-drop"),
        Mode::DropVsCommit => "savepoint-drop@mid-vs-commit".into(),
    }
}
