//! C13 -- compaction changes space, never content.

use crate::checks::c01::{short_sig, tail};
use crate::checks::c06::{C06Out, acct_step};
use crate::crash::{CrashBudget, Enumerator};
use crate::ops::*;
use crate::own::Acct;
use crate::recover::{RecCtx, RecStats};
use crate::report::{Report, Tier, run_cases};
use crate::rng::{Rng, mix};
use crate::world::*;
use redb::{CompactionError, ReadableDatabase};
use serde_json::json;
use std::collections::BTreeMap;

struct Out {
    compactions: u64,
    compactions_that_moved_pages: u64,
    refusals: BTreeMap<&'static str, u64>,
    max_txns_consumed: u64,
    bytes_saved: u64,
    crash_images: u64,
    regions_before_max: u64,
    grew: u64,
    soft: Vec<String>,
    counts: BTreeMap<String, u64>,
    trace: Option<Vec<String>>,
    cfg: Cfg,
}

fn one_case(rep: &Report, case: u64, trace_on: bool) -> (Out, Option<Fail>) {
    let seed = rep.seed;
    let mut rng = Rng::for_case(seed, "C13", case);
    let cfg = Cfg {
        page_size: *rng.pick(&[512usize, 512, 1024, 4096]),
        region_pages: *rng.pick(&[Some(32u64), Some(64), Some(256)]),
        cache: *rng.pick(&[0usize, 65536, 1 << 30]),
    };
    let with_crash = case % 40 == 0;
    let mut out = Out {
        compactions: 0,
        compactions_that_moved_pages: 0,
        refusals: BTreeMap::new(),
        max_txns_consumed: 0,
        bytes_saved: 0,
        crash_images: 0,
        regions_before_max: 0,
        grew: 0,
        soft: vec![],
        counts: BTreeMap::new(),
        trace: None,
        cfg: cfg.clone(),
    };
    let mut opts = Opts::default();
    opts.keyspace = 200;
    opts.max_ops = 60;
    opts.max_value_pages = 4;
    let mut w = match World::create(cfg, opts, rng) {
        Ok(w) => w,
        Err(e) => return (out, Some(e)),
    };
    w.track_pins = true;
    w.judge_compact_size = true;
    if trace_on {
        w.trace = Some(vec![]);
    }
    w.be.set_sync_hook(crate::fmt::sync_hook(false));
    if with_crash {
        w.be.start_recording();
    }
    let mut o6 = C06Out {
        steps: 0,
        accountings: 0,
        last: Acct::default(),
        max_alloc: 0,
        max_pending: 0,
        drained: false,
        drain_commits: 0,
        counts: BTreeMap::new(),
        trace: None,
        cfg: w.cfg.clone(),
        cow_evals: 0,
    };
    let mut windows: Vec<(usize, usize)> = vec![];
    let r = (|| -> R<()> {
        let rounds = w.rng.range(1, 3);
        for _ in 0..rounds {
            // fragment the file
            let n = w.rng.range(3, 12);
            for _ in 0..n {
                let mut plan = w.plan();
                if w.rng.chance(2, 3) {
                    plan.end = End::Commit;
                }
                plan.n_ops = plan.n_ops.max(10);
                w.run_txn(&plan)?;
                if w.rng.chance(1, 6) && w.readers.len() < 2 {
                    w.open_reader()?;
                }
            }
            acct_step(&w, &mut o6)?;
            // refusal clause
            if !w.readers.is_empty() || !w.esp.is_empty() || !w.psp.is_empty() {
                let len0 = w.be.lock().data.len();
                let before = dump_db(w.db())?;
                // an invalidated ephemeral savepoint handle no longer counts as a savepoint, but it
                // still holds a read reference
                let expect: &'static str = if !w.psp.is_empty() {
                    "PersistentSavepointExists"
                } else if w.esp.iter().any(|e| e.valid) {
                    "EphemeralSavepointExists"
                } else {
                    "TransactionInProgress"
                };
                let res = w.db.as_mut().unwrap().compact();
                let got = match &res {
                    Err(CompactionError::PersistentSavepointExists) => "PersistentSavepointExists",
                    Err(CompactionError::EphemeralSavepointExists) => "EphemeralSavepointExists",
                    Err(CompactionError::TransactionInProgress) => "TransactionInProgress",
                    Err(CompactionError::Storage(e)) => return Err(Fail::Storage(format!("compact: {e}"))),
                    Err(_) => "other error",
                    Ok(_) => "ran",
                };
                ensure!(
                    got == expect,
                    "compact() with a live {} returned '{got}', expected {expect}",
                    if !w.psp.is_empty() { "persistent savepoint" } else if !w.esp.is_empty() { "ephemeral savepoint" } else { "read transaction" }
                );
                *out.refusals.entry(expect).or_insert(0) += 1;
                let after = dump_db(w.db())?;
                ensure!(before == after, "a refused compact() changed the contents");
                ensure!(w.be.lock().data.len() == len0, "a refused compact() changed the file length");
            }
            // make it possible, then compact
            w.readers.clear();
            w.esp.clear();
            if !w.psp.is_empty() {
                let txn = w.db().begin_write().map_err(se("begin_write"))?;
                for id in w.psp.keys().copied().collect::<Vec<_>>() {
                    txn.delete_persistent_savepoint(id).map_err(se("delete_persistent_savepoint"))?;
                }
                let req = w.be.log_len();
                txn.commit().map_err(se("commit"))?;
                w.psp.clear();
                // keep the commit log in step: same contents, no savepoints
                let ack = w.be.log_len();
                w.commits.push(CommitPoint {
                    seq: w.next_seq,
                    contents: w.visible.clone(),
                    psp: BTreeMap::new(),
                    durable: true,
                    req_pos: req,
                    ack_pos: ack,
                    desc: "delete savepoints".into(),
                });
                w.next_seq += 1;
                for c in w.commits.iter_mut() {
                    if c.ack_pos == usize::MAX {
                        c.ack_pos = ack;
                    }
                }
            }
            let snap0 = w.db().verif_snapshot();
            out.regions_before_max = out.regions_before_max.max(u64::from(snap0.mem.num_regions));
            let allocated0: u64 = crate::own::allocated_set(&snap0).map_err(Fail::Storage)?.len() as u64;
            let len0 = w.be.lock().data.len();
            let times = w.rng.range(1, 3);
            for _ in 0..times {
                let pos0 = w.be.log_len();
                let t0 = w.db().verif_snapshot().tracker.next_transaction_id;
                let moved_before = w.counts.get("db.compact").copied().unwrap_or(0);
                w.compact()?;
                let _ = moved_before;
                let t1 = w.db().verif_snapshot().tracker.next_transaction_id;
                let pos1 = w.be.log_len();
                windows.push((pos0, pos1));
                out.compactions += 1;
                let consumed = t1 - t0;
                out.max_txns_consumed = out.max_txns_consumed.max(consumed);
                ensure!(
                    consumed <= 4 * allocated0 + 16,
                    "compact() consumed {consumed} transactions on a database of {allocated0} allocated pages (no bounded number of passes)"
                );
                acct_step(&w, &mut o6)?;
            }
            let len1 = w.be.lock().data.len();
            if len1 < len0 {
                out.bytes_saved += (len0 - len1) as u64;
                out.compactions_that_moved_pages += 1;
            }
        }
        Ok(())
    })();
    let mut fail = r.err();
    out.grew = w.counts.get("db.compact_grew_file").copied().unwrap_or(0);
    if fail.is_none() && with_crash {
        w.close();
        w.mark_all_durable();
        let (base, log) = {
            let st = w.be.lock();
            (st.base.clone(), st.log.clone())
        };
        let mut ctx = RecCtx {
            cfg: &w.cfg,
            opts: &w.opts,
            commits: &w.commits,
            seed: seed ^ case,
            stats: RecStats::default(),
            depth: 0,
            deep_every: 0,
            check_m2: true,
            check_integrity: true,
            rec_every: 0,
            rec_cap: 0,
        };
        let cap = if rep.tier == Tier::Quick { 600u64 } else { 4000 };
        for (p0, p1) in &windows {
            let mut en = Enumerator::new(&base, &log, CrashBudget::recursion(), seed ^ (case << 5));
            let mut err = None;
            let mut seen = 0u64;
            en.run(*p0 + 1, *p1, &mut |ci, img| match ctx.check(ci, img, 0) {
                Ok(()) => {
                    seen += 1;
                    seen < cap
                }
                Err(e) => {
                    err = Some(format!("crash inside compaction, image {}: {e}", ci.describe()));
                    false
                }
            });
            if let Some(e) = err {
                fail = Some(Fail::Oracle(e));
                break;
            }
        }
        out.crash_images = ctx.stats.images;
    } else {
        w.close();
    }
    if fail.is_none() {
        if let Some(v) = w.be_violations.first() {
            fail = Some(Fail::Oracle(format!("backend contract: {v}")));
        } else if let Some(e) = w.sync_errors.first() {
            fail = Some(Fail::Oracle(format!("format: {e}")));
        }
    }
    out.counts = w.counts.clone();
    out.soft = std::mem::take(&mut w.soft);
    out.trace = w.trace.take();
    (out, fail)
}

/// Late-pin scenario: a write transaction is live on one thread while compact() is called on
/// another (a WriteTransaction is not lifetime-bound to the Database, so `&mut Database` does not
/// exclude it). compact() passes its first guard check and then waits for the write slot; meanwhile
/// the holder creates a savepoint (ephemeral or persistent) and commits, keeping the savepoint
/// alive. compact() must then refuse with the matching error and change nothing; with no savepoint
/// it must run and leave the (holder's committed or aborted) contents unchanged.
fn late_pin_case(seed: u64, case: u64) -> (BTreeMap<String, u64>, Option<Fail>, Cfg) {
    use crate::backend::MonBackend;
    use redb::{ReadableTable, TableDefinition};
    use std::sync::atomic::{AtomicBool, Ordering};
    const T: TableDefinition<u64, &[u8]> = TableDefinition::new("late");
    let mut rng = Rng::for_case(seed, "C13late", case);
    let cfg = Cfg {
        page_size: *rng.pick(&[512usize, 1024, 4096]),
        region_pages: *rng.pick(&[Some(32u64), Some(64), Some(256)]),
        cache: *rng.pick(&[0usize, 65536, 1 << 30]),
    };
    let mut counts: BTreeMap<String, u64> = BTreeMap::new();
    let cfg2 = cfg.clone();
    let r = (|| -> R<()> {
        let be = MonBackend::new();
        be.set_sync_hook(crate::fmt::sync_hook(false));
        let mut db = cfg.builder().create_with_backend(be.clone()).map_err(se("create_with_backend"))?;
        let mut model: BTreeMap<u64, Vec<u8>> = BTreeMap::new();
        let dump = |db: &redb::Database| -> R<BTreeMap<u64, Vec<u8>>> {
            let rt = db.begin_read().map_err(se("begin_read"))?;
            let mut m = BTreeMap::new();
            match rt.open_table(T) {
                Ok(t) => {
                    for e in t.iter().map_err(se("iter"))? {
                        let (k, v) = e.map_err(se("iter item"))?;
                        m.insert(k.value(), v.value().to_vec());
                    }
                }
                Err(redb::TableError::TableDoesNotExist(_)) => {}
                Err(e) => return Err(Fail::Storage(format!("open_table: {e}"))),
            }
            Ok(m)
        };
        // fragment: a few commits of inserts, then deletes
        let n_fill = rng.range(2, 6);
        for _ in 0..n_fill {
            let txn = db.begin_write().map_err(se("begin_write"))?;
            {
                let mut t = txn.open_table(T).map_err(se("open_table"))?;
                for _ in 0..rng.range(5, 60) {
                    let k = rng.below(300);
                    let l = crate::world::value_len(&mut rng, cfg.page_size, 3);
                    let v = rng.bytes(l);
                    t.insert(k, v.as_slice()).map_err(se("insert"))?;
                    model.insert(k, v);
                }
                for _ in 0..rng.range(0, 30) {
                    let k = rng.below(300);
                    t.remove(k).map_err(se("remove"))?;
                    model.remove(&k);
                }
            }
            txn.commit().map_err(se("commit"))?;
        }
        let variant = rng.below(5);
        let vname = ["ephemeral savepoint + commit", "persistent savepoint + commit", "plain commit", "abort", "ephemeral savepoint, then abort"][variant as usize];
        *counts.entry(format!("late.variant.{vname}")).or_insert(0) += 1;
        let holder = db.begin_write().map_err(se("begin_write (holder)"))?;
        let started = AtomicBool::new(false);
        let mut esp = None;
        let mut psp = None;
        let mut staged = model.clone();
        let delay_ms = *rng.pick(&[5u64, 20, 50]);
        let writes = rng.range(0, 20);
        let wkeys: Vec<(u64, Vec<u8>)> = (0..writes).map(|_| { let l = rng.range(0, 200) as usize; (rng.below(300), rng.bytes(l)) }).collect();
        let len0 = be.lock().data.len();
        let (res, hold_res) = std::thread::scope(|s| {
            let dbm = &mut db;
            let st = &started;
            let h = s.spawn(move || {
                st.store(true, Ordering::SeqCst);
                dbm.compact()
            });
            while !started.load(Ordering::SeqCst) {
                std::thread::yield_now();
            }
            // let compact() get past its first guard check and queue for the write slot
            std::thread::sleep(std::time::Duration::from_millis(delay_ms));
            let hold_res = (|| -> R<()> {
                match variant {
                    0 | 4 => esp = Some(holder.ephemeral_savepoint().map_err(se("ephemeral_savepoint"))?),
                    1 => psp = Some(holder.persistent_savepoint().map_err(se("persistent_savepoint"))?),
                    _ => {}
                }
                {
                    let mut t = holder.open_table(T).map_err(se("open_table (holder)"))?;
                    for (k, v) in &wkeys {
                        t.insert(*k, v.as_slice()).map_err(se("insert (holder)"))?;
                        staged.insert(*k, v.clone());
                    }
                }
                match variant {
                    0 | 1 | 2 => {
                        holder.commit().map_err(se("commit (holder)"))?;
                        model = staged.clone();
                    }
                    _ => holder.abort().map_err(se("abort (holder)"))?,
                }
                Ok(())
            })();
            (h.join(), hold_res)
        });
        hold_res?;
        let res = match res {
            Ok(r) => r,
            Err(_) => return Err(Fail::Oracle("compact() panicked while a write transaction begun before it was finishing".into())),
        };
        let got = match &res {
            Err(CompactionError::PersistentSavepointExists) => "PersistentSavepointExists",
            Err(CompactionError::EphemeralSavepointExists) => "EphemeralSavepointExists",
            Err(CompactionError::TransactionInProgress) => "TransactionInProgress",
            Err(CompactionError::Storage(e)) => return Err(Fail::Oracle(format!("late pin ({vname}): compact() failed: {e}"))),
            Err(_) => "other error",
            Ok(_) => "ran",
        };
        // variant 4: the savepoint handle outlives the aborted transaction that created it: it still
        // holds a read reference but is no longer a registered savepoint, either refusal is the
        // documented behaviour for a live pin
        let ok = match variant {
            0 => got == "EphemeralSavepointExists",
            1 => got == "PersistentSavepointExists",
            4 => got == "EphemeralSavepointExists" || got == "TransactionInProgress" || got == "ran",
            _ => got == "ran",
        };
        ensure!(
            ok,
            "late pin: a write transaction that was live when compact() was called did '{vname}' while compact() waited for the write slot; compact() returned '{got}'"
        );
        *counts.entry(format!("late.outcome.{got}")).or_insert(0) += 1;
        let after = dump(&db)?;
        ensure!(after == model, "late pin ({vname}): contents after compact() returned '{got}' differ from the committed contents");
        if got != "ran" && variant != 2 && variant != 3 {
            // refused: the file may have been changed by the holder's commit only; it must not shrink
            // below what the savepoint needs -- judged by reading the savepoint back below
        }
        let _ = len0;
        // the pinned snapshot must still be restorable exactly
        if let Some(sp) = esp.as_ref() {
            if variant == 0 {
                let txn = db.begin_write().map_err(se("begin_write"))?;
                let mut txn = txn;
                txn.restore_savepoint(sp).map_err(se("restore_savepoint (late pin)"))?;
                txn.abort().map_err(se("abort"))?;
            }
        }
        drop(esp);
        if let Some(id) = psp {
            let txn = db.begin_write().map_err(se("begin_write"))?;
            txn.delete_persistent_savepoint(id).map_err(se("delete_persistent_savepoint"))?;
            txn.commit().map_err(se("commit"))?;
        }
        // with the pins gone compaction must run, terminate and keep the contents
        match db.compact() {
            Ok(_) => {}
            Err(e) => return Err(Fail::Oracle(format!("late pin ({vname}): compact() after the pins were removed failed: {e}"))),
        }
        let after = dump(&db)?;
        ensure!(after == model, "late pin ({vname}): contents changed by the final compact()");
        match db.check_integrity() {
            Ok(true) => {}
            other => return Err(Fail::Oracle(format!("late pin ({vname}): check_integrity() after compaction returned {other:?}"))),
        }
        drop(db);
        if let Some(v) = be.take_violations().first() {
            return Err(Fail::Oracle(format!("backend contract: {v}")));
        }
        if let Some(e) = be.take_sync_errors().first() {
            return Err(Fail::Oracle(format!("format: {e}")));
        }
        Ok(())
    })();
    (counts, r.err(), cfg2)
}

pub fn run(rep: &Report) {
    rep.set_rule(
        "case = a history that fragments a multi-region file (interleaved inserts/deletes, large values, multimap subtrees, pending frees, pending non-durable commits, readers and savepoints), then: (1) compact() with a reader / ephemeral / persistent savepoint alive must return the matching CompactionError and change neither contents nor file length; (2) after the pins are removed compact() runs 1-3 times: contents (full dump) unchanged, file length at return not larger than before the call, transactions consumed <= 4*allocated_pages+16 (logical bound on the number of passes), ownership accountant balanced, every sync image well-formed; (3) for part of the cases every storage operation inside the compaction is a crash point: the recovered contents must be the unchanged contents. (4) late-pin scenarios: a write transaction that was live when compact() was called on another thread creates an ephemeral or persistent savepoint (or just commits / aborts) while compact() waits for the write slot; compact() must refuse with the matching error (or run, when no pin was created), contents must equal the committed contents, and a final compact() without pins must run. evaluations = compactions + refusals + crash images + late-pin scenarios; distinct_nontrivial = distinct cases in which a compaction actually shrank the file",
    );
    rep.assume("the wall-clock watchdog is the driver's; the pass bound is a logical count of transaction ids consumed");
    let (n, n_late) = match rep.tier {
        Tier::Quick => (10_000u64, 600u64),
        Tier::Thorough => (120_000u64, 6_000u64),
    };
    run_cases(
        rep,
        n + n_late,
        |case| {
            let replay = json!({"check": "C13", "seed": rep.seed, "case": case, "tier": rep.tier.name()});
            if case >= n {
                let (counts, fail, cfg) = late_pin_case(rep.seed, case);
                rep.eval(1);
                rep.count("late_pin_scenarios", 1);
                for (k, v) in &counts {
                    rep.count(k, *v);
                }
                if let Some(f) = fail {
                    rep.violation(
                        format!("compact:{}", short_sig(f.text())),
                        format!("case {case} cfg {cfg:?}: {}", f.text()),
                        replay,
                    );
                }
                return;
            }
            let trace_on = rep.replay_only.is_some() || rep.want_sample();
            let (out, fail) = one_case(rep, case, trace_on);
            let refusals: u64 = out.refusals.values().sum();
            rep.eval(out.compactions + refusals + out.crash_images + 1);
            rep.count("compactions", out.compactions);
            rep.count("compactions_that_shrank_the_file", out.compactions_that_moved_pages);
            rep.count("bytes_saved", out.bytes_saved);
            for (k, v) in &out.refusals {
                rep.count(&format!("refused.{k}"), *v);
            }
            rep.count_max("max.transactions_consumed_by_one_compact", out.max_txns_consumed);
            rep.count_max("max.regions_before_compaction", out.regions_before_max);
            rep.count("crash_images_inside_compaction", out.crash_images);
            rep.count("compactions_that_grew_the_file", out.grew);
            if out.compactions_that_moved_pages > 0 {
                rep.distinct(mix(case, out.bytes_saved));
            }
            for s in &out.soft {
                rep.violation(
                    format!("compact:{}", short_sig(s)),
                    format!("case {case} cfg {:?}: {s}", out.cfg),
                    replay.clone(),
                );
            }
            match fail {
                Some(f) => {
                    if f.text().starts_with("machinery") {
                        rep.machinery(format!("case {case}: {}", f.text()));
                    } else {
                        rep.violation(
                            format!("compact:{}", short_sig(f.text())),
                            format!("case {case} cfg {:?}: {}; trace tail {:?}", out.cfg, f.text(), tail(&out.trace)),
                            replay,
                        );
                    }
                }
                None => {
                    if rep.want_sample() && out.compactions > 0 {
                        rep.sample(json!({"case": case, "cfg": out.cfg.json(), "compactions": out.compactions, "bytes_saved": out.bytes_saved,
                            "refusals": format!("{:?}", out.refusals), "max_transactions_consumed": out.max_txns_consumed, "crash_images": out.crash_images}));
                    }
                }
            }
        },
        |case, p| {
            rep.violation(
                format!("panic:{}", p.location),
                format!("case {case}: {}", p.short()),
                json!({"check": "C13", "seed": rep.seed, "case": case, "tier": rep.tier.name()}),
            );
        },
    );
}
