use crate::report::Report;

pub mod c01;
pub mod c02;
pub mod c03;
pub mod c04;
pub mod c05;
pub mod c06;
pub mod c07;
pub mod c08;
pub mod c09;
pub mod c10;
pub mod c11;
pub mod c12;
pub mod c13;
pub mod c14;
pub mod c15;
pub mod c16;
pub mod c17;
pub mod c18;
pub mod c19;
pub mod c20;

type RunFn = fn(&Report);

pub const CHECKS: &[(&str, &str, RunFn)] = &[
    ("C01", "fault_enumeration", c01::run),
    ("C02", "exploration", c02::run),
    ("C03", "exploration", c03::run),
    ("C04", "exploration", c04::run),
    ("C05", "exploration", c05::run),
    ("C06", "exploration", c06::run),
    ("C07", "exploration", c07::run),
    ("C08", "fault_enumeration", c08::run),
    ("C09", "exploration", c09::run),
    ("C10", "exploration", c10::run),
    ("C11", "exploration", c11::run),
    ("C12", "fault_enumeration", c12::run),
    ("C13", "exploration", c13::run),
    ("C14", "exploration", c14::run),
    ("C15", "exploration", c15::run),
    ("C16", "exploration", c16::run),
    ("C17", "exploration", c17::run),
    ("C18", "exploration", c18::run),
    ("C19", "exploration", c19::run),
    ("C20", "exploration", c20::run),
];

pub fn lookup(check: &str) -> Option<(&'static str, &'static str)> {
    CHECKS.iter().find(|c| c.0 == check).map(|c| (c.0, c.1))
}

pub fn run(check: &str, rep: &Report) {
    let c = CHECKS.iter().find(|c| c.0 == check).expect("known check");
    (c.2)(rep)
}
