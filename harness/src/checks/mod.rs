use crate::report::Report;

pub mod c01;

pub fn lookup(check: &str) -> Option<(&'static str, &'static str)> {
    Some(match check {
        "C01" => ("C01", "fault_enumeration"),
        _ => return None,
    })
}

pub fn run(check: &str, rep: &Report) {
    match check {
        "C01" => c01::run(rep),
        _ => unreachable!(),
    }
}
