//! C05 -- abandoned or failed transactions leave no trace.

use crate::backend::{Fault, K_READ};
use crate::checks::c01::{short_sig, tail};
use crate::checks::c06::{C06Out, acct_step};
use crate::model::*;
use crate::ops::*;
use crate::own::{Acct, allocated_set};
use crate::report::{Report, Tier, guarded, run_cases};
use crate::rng::{Rng, mix};
use crate::world::*;
use redb::{CommitError, ReadableTable, SavepointError};
use serde_json::json;
use std::collections::{BTreeMap, BTreeSet};
use std::sync::Arc;

struct Before {
    contents: Arc<Contents>,
    psp: BTreeSet<u64>,
    esp_valid: Vec<bool>,
    allocated_pages: u64,
    allocated_set: BTreeSet<(u32, u32)>,
    /// the shared tracker's registrations: live reads (id -> count), savepoints, pending commits
    tracker: String,
}

fn probe_savepoints(w: &mut World) -> R<Vec<bool>> {
    let mut out = vec![];
    for i in 0..w.esp.len() {
        let mut txn = w.db().begin_write().map_err(se("begin_write"))?;
        let r = txn.restore_savepoint(&w.esp[i].sp);
        let ok = match r {
            Ok(()) => true,
            Err(SavepointError::InvalidSavepoint) => false,
            Err(e) => return Err(sp_fail(format!("probing savepoint validity: {e}"), &e)),
        };
        txn.abort().map_err(se("abort"))?;
        out.push(ok);
    }
    Ok(out)
}

fn capture(w: &mut World) -> R<Before> {
    let contents = Arc::new(dump_db(w.db())?);
    let txn = w.db().begin_write().map_err(se("begin_write"))?;
    let psp = list_psp(&txn)?;
    let allocated_pages = txn.stats().map_err(se("stats"))?.allocated_pages();
    txn.abort().map_err(se("abort"))?;
    let esp_valid = probe_savepoints(w)?;
    let snap = w.db().verif_snapshot();
    let allocated_set = allocated_set(&snap).map_err(Fail::Storage)?;
    let t = &snap.tracker;
    let tracker = format!(
        "live reads {:?}; valid savepoints {:?}; persistent savepoints {:?}; pending non-durable commits {:?}; unprocessed {:?}",
        t.live_read_transactions, t.valid_savepoints, t.persistent_savepoints, t.pending_non_durable_commits, t.unprocessed_freed_non_durable_commits
    );
    Ok(Before {
        tracker,
        contents,
        psp,
        esp_valid,
        allocated_pages,
        allocated_set,
    })
}

fn compare(b: &Before, a: &Before, how: &str) -> R<()> {
    if let Some(d) = diff_contents(&b.contents, &a.contents) {
        return oracle(format!("after a transaction ended by {how} the contents changed: {d}"));
    }
    ensure!(
        b.psp == a.psp,
        "after a transaction ended by {how} the persistent savepoints changed: {:?} -> {:?}",
        b.psp,
        a.psp
    );
    ensure!(
        b.esp_valid == a.esp_valid,
        "after a transaction ended by {how} the validity of live savepoints changed: {:?} -> {:?}",
        b.esp_valid,
        a.esp_valid
    );
    ensure!(
        b.allocated_pages == a.allocated_pages,
        "after a transaction ended by {how} stats().allocated_pages() went from {} to {}",
        b.allocated_pages,
        a.allocated_pages
    );
    ensure!(
        b.tracker == a.tracker,
        "after a transaction ended by {how} the tracker still holds registrations of the abandoned work: before [{}] after [{}]",
        b.tracker,
        a.tracker
    );
    if b.allocated_set != a.allocated_set {
        let extra: Vec<_> = a.allocated_set.difference(&b.allocated_set).take(4).collect();
        let missing: Vec<_> = b.allocated_set.difference(&a.allocated_set).take(4).collect();
        return oracle(format!(
            "after a transaction ended by {how} the set of allocated pages differs: still allocated {extra:?}, no longer allocated {missing:?}"
        ));
    }
    Ok(())
}

struct Out {
    how: &'static str,
    body_ops: u64,
    prelude_steps: u64,
    poisoned_refused: bool,
    fault_hit: bool,
    acct: Acct,
    counts: BTreeMap<String, u64>,
    trace: Option<Vec<String>>,
    cfg: Cfg,
}

fn one_case(seed: u64, case: u64, trace_on: bool) -> (Out, Option<Fail>) {
    let mut rng = Rng::for_case(seed, "C05", case);
    let mut cfg = Cfg::pick(&mut rng);
    if cfg.page_size > 1024 {
        cfg.page_size = 1024;
    }
    let mode = case % 5;
    if mode == 4 {
        cfg.cache = 0;
    }
    let how = ["abort()", "drop", "abort()", "a panicking predicate then commit()", "an I/O error inside an operation"][mode as usize];
    let mut out = Out {
        how,
        body_ops: 0,
        prelude_steps: 0,
        poisoned_refused: false,
        fault_hit: false,
        acct: Acct::default(),
        counts: BTreeMap::new(),
        trace: None,
        cfg: cfg.clone(),
    };
    let mut w = match World::create(cfg, Opts::default(), rng) {
        Ok(w) => w,
        Err(e) => return (out, Some(e)),
    };
    w.track_pins = true;
    if trace_on {
        w.trace = Some(vec![]);
    }
    let r = (|| -> R<()> {
        // prelude: arbitrary history so that pending frees, non-durable commits, savepoints exist
        let n = w.rng.range(0, 10);
        for _ in 0..n {
            let roll = w.rng.below(100);
            match roll {
                0..=9 => {
                    if w.readers.len() < 3 {
                        w.open_reader()?;
                    }
                }
                10..=14 => w.drop_random_reader(),
                15..=18 => w.drop_random_esp(),
                _ => {
                    let plan = w.plan();
                    w.run_txn(&plan)?;
                }
            }
            out.prelude_steps += 1;
        }
        if mode == 4 {
            // the faulted variant ends in an unclean reopen: make everything durable first
            w.readers.clear();
            w.esp.clear();
            let txn = w.db().begin_write().map_err(se("begin_write"))?;
            txn.commit().map_err(se("commit"))?;
        }
        let before = capture(&mut w)?;
        if let Some(d) = diff_contents(&w.visible, &before.contents) {
            return oracle(format!("model out of sync before the abandoned transaction: {d}"));
        }
        match mode {
            0..=2 => {
                let mut plan = w.plan();
                plan.end = if mode == 1 { End::Drop } else { End::Abort };
                plan.n_ops = plan.n_ops.max(3);
                out.body_ops = plan.n_ops as u64;
                let esp_before = w.esp.len();
                w.run_txn(&plan)?;
                // ephemeral savepoints created inside the abandoned transaction are new handles;
                // drop them so that validity vectors compare like with like
                w.esp.truncate(esp_before);
            }
            3 => {
                // poison the transaction with a panicking predicate, then try to commit
                let txn = w.db().begin_write().map_err(se("begin_write"))?;
                let mut work = (*w.visible).clone();
                let n = w.rng.range(1, 12) as usize;
                w.do_ops(&txn, &mut work, n)?;
                out.body_ops = n as u64;
                let name = Kind::A.name(0);
                {
                    let mut t = txn.open_table(def_a(&name)).map_err(se("open_table"))?;
                    for i in 0..20u64 {
                        t.insert(i, [7u8; 40].as_slice()).map_err(se("insert"))?;
                    }
                    let use_extract = w.rng.bool();
                    let r = guarded(|| {
                        if use_extract {
                            if let Ok(mut it) = t.extract_if(|k, _| {
                                if k > 5 {
                                    panic!("rv: predicate panics");
                                }
                                true
                            }) {
                                for _ in 0..30 {
                                    if it.next().is_none() {
                                        break;
                                    }
                                }
                            }
                        } else {
                            let _ = t.retain(|k, _| {
                                if k > 5 {
                                    panic!("rv: predicate panics");
                                }
                                k % 2 == 0
                            });
                        }
                    });
                    ensure!(r.is_err(), "the panicking predicate did not unwind");
                }
                match txn.commit() {
                    Err(CommitError::TransactionPoisoned) => out.poisoned_refused = true,
                    Err(e) => return oracle(format!("commit() of a poisoned transaction returned {e} instead of TransactionPoisoned")),
                    Ok(()) => return oracle("commit() succeeded after a predicate panicked inside retain/extract_if: a half-applied operation was committed".into()),
                }
            }
            _ => {
                // a one-shot read failure inside rename / delete / restore
                let which = w.rng.below(3);
                let mut txn = w.db().begin_write().map_err(se("begin_write"))?;
                let names: Vec<String> = w.visible.keys().filter(|n| !Kind::of_name(n).unwrap().is_multimap()).cloned().collect();
                let be = w.be.clone();
                let arm = || be.set_fault(Fault::new(0, K_READ, false));
                let res: Result<(), String> = match which {
                    0 if !names.is_empty() => {
                        let n = w.rng.pick(&names).clone();
                        arm();
                        match Kind::of_name(&n).unwrap() {
                            Kind::A => txn.rename_table(def_a(&n), def_a("A9")).map_err(|e| e.to_string()),
                            Kind::B => txn.rename_table(def_b(&n), def_b("B9")).map_err(|e| e.to_string()),
                            _ => txn.rename_table(def_f(&n), def_f("F9")).map_err(|e| e.to_string()),
                        }
                    }
                    1 if !names.is_empty() => {
                        let n = w.rng.pick(&names).clone();
                        arm();
                        match Kind::of_name(&n).unwrap() {
                            Kind::A => txn.delete_table(def_a(&n)).map(|_| ()).map_err(|e| e.to_string()),
                            Kind::B => txn.delete_table(def_b(&n)).map(|_| ()).map_err(|e| e.to_string()),
                            _ => txn.delete_table(def_f(&n)).map(|_| ()).map_err(|e| e.to_string()),
                        }
                    }
                    _ => {
                        let ids: Vec<u64> = w.psp.keys().copied().collect();
                        if ids.is_empty() {
                            Ok(())
                        } else {
                            let sp = txn.get_persistent_savepoint(ids[0]).map_err(|e| sp_fail(e.to_string(), &e))?;
                            arm();
                            txn.restore_savepoint(&sp).map_err(|e| e.to_string())
                        }
                    }
                };
                let fired = w.be.lock().fault.fired > 0;
                w.be.clear_fault();
                out.fault_hit = fired && res.is_err();
                if out.fault_hit {
                    // a half-applied operation must not be committable
                    match txn.commit() {
                        Ok(()) => return oracle(format!("commit() succeeded after an operation failed part-way with '{}'", res.unwrap_err())),
                        Err(_) => {}
                    }
                    ensure!(
                        w.db().begin_write().is_err(),
                        "begin_write() accepted after an I/O error was reported"
                    );
                    // reopen on the surviving storage: the state must be the one from before
                    w.readers.clear();
                    w.esp.clear();
                    w.db = None;
                    let img = w.be.image();
                    w.be = crate::backend::MonBackend::from_image(img);
                    let db = w.cfg.builder().create_with_backend(w.be.clone()).map_err(se("reopen after the failure"))?;
                    w.db = Some(db);
                    let got = dump_db(w.db())?;
                    if let Some(d) = diff_contents(&before.contents, &got) {
                        return oracle(format!("after the failed operation and a reopen the contents differ from before: {d}"));
                    }
                    let txn = w.db().begin_write().map_err(se("begin_write"))?;
                    let psp = list_psp(&txn)?;
                    txn.abort().map_err(se("abort"))?;
                    ensure!(psp == before.psp, "after the failed operation and a reopen the persistent savepoints differ: {:?} vs {:?}", psp, before.psp);
                    let mut o6 = dummy_c06(&w);
                    acct_step(&w, &mut o6)?;
                    out.acct = o6.last;
                    return Ok(());
                } else {
                    txn.abort().map_err(se("abort"))?;
                }
            }
        }
        let after = capture(&mut w)?;
        compare(&before, &after, how)?;
        let mut o6 = dummy_c06(&w);
        acct_step(&w, &mut o6)?;
        out.acct = o6.last.clone();
        // and the model still agrees
        w.verify_visible()?;
        // "no storage space remains consumed": with every reader and savepoint gone, what later
        // commits free must be reclaimed -- nothing of the abandoned transaction may still pin it
        if w.rng.chance(1, 2) {
            let plan = w.plan();
            w.run_txn(&plan)?;
        }
        crate::checks::c06::drain(&mut w, &mut o6)?;
        Ok(())
    })();
    w.close();
    out.counts = w.counts.clone();
    out.trace = w.trace.take();
    (out, r.err())
}

fn dummy_c06(w: &World) -> C06Out {
    C06Out {
        steps: 0,
        accountings: 0,
        last: Acct::default(),
        max_alloc: 0,
        max_pending: 0,
        drained: false,
        drain_commits: 0,
        counts: BTreeMap::new(),
        trace: None,
        cfg: w.cfg.clone(),
        cow_evals: 0,
    }
}

pub fn run(rep: &Report) {
    rep.set_rule(
        "case = (prelude history, transaction body, way of ending): after an arbitrary prelude (so that pending frees, non-durable commits, readers and savepoints exist) the state is captured -- full contents, persistent savepoint ids, validity of every live Savepoint handle (probed by restore-then-abort), stats().allocated_pages() and the exact set of allocated pages from the allocator bitmaps -- then a transaction mixing table writes, create/rename/delete, savepoint create/delete/restore and durability changes is ended by abort(), by drop, by a panicking retain/extract_if predicate followed by commit() (must be TransactionPoisoned), or by a one-shot read failure injected inside rename_table/delete_table/restore_savepoint (commit must fail, begin_write must be refused, state after reopen must equal the state before); the capture is repeated and must be identical, and the ownership accountant must balance. distinct_nontrivial = distinct cases whose body performed at least 3 operations",
    );
    rep.assume("the faulted variant makes every earlier commit durable first, because it ends in an unclean reopen");
    let n = match rep.tier {
        Tier::Quick => 120_000u64,
        Tier::Thorough => 800_000u64,
    };
    run_cases(
        rep,
        n,
        |case| {
            let replay = json!({"check": "C05", "seed": rep.seed, "case": case, "tier": rep.tier.name()});
            let trace_on = rep.replay_only.is_some() || rep.want_sample();
            let (out, fail) = one_case(rep.seed, case, trace_on);
            rep.eval(1);
            rep.count(&format!("ended_by.{}", out.how), 1);
            rep.count("body_ops", out.body_ops);
            rep.count("prelude_steps", out.prelude_steps);
            if out.poisoned_refused {
                rep.count("poisoned_commit_refused", 1);
            }
            if out.fault_hit {
                rep.count("io_error_inside_operation_hit", 1);
            }
            rep.count_max("max.allocated_pages", out.acct.allocated);
            rep.merge_counts(&out.counts);
            if out.body_ops >= 3 || out.poisoned_refused || out.fault_hit {
                rep.distinct(mix(case, out.body_ops));
            }
            match fail {
                Some(f) => {
                    if f.text().starts_with("machinery") {
                        rep.machinery(format!("case {case}: {}", f.text()));
                    } else {
                        let kind = if matches!(f, Fail::Oracle(_)) { "trace" } else { "error" };
                        rep.violation(
                            format!("{kind}:{}", short_sig(f.text())),
                            format!("case {case} ({}) cfg {:?}: {}; trace tail {:?}", out.how, out.cfg, f.text(), tail(&out.trace)),
                            replay,
                        );
                    }
                }
                None => {
                    if rep.want_sample() {
                        rep.sample(json!({"case": case, "ended_by": out.how, "cfg": out.cfg.json(), "prelude_steps": out.prelude_steps,
                            "body_ops": out.body_ops, "allocated_pages": out.acct.allocated,
                            "trace_tail": out.trace.as_ref().map(|t| t.iter().rev().take(20).rev().cloned().collect::<Vec<_>>())}));
                    }
                }
            }
        },
        |case, p| {
            rep.violation(
                format!("panic:{}", p.location),
                format!("case {case}: {}", p.short()),
                json!({"check": "C05", "seed": rep.seed, "case": case, "tier": rep.tier.name()}),
            );
        },
    );
}
