//! C19 -- files stay readable across releases that share the file format (differential against
//! redb 3.0.0, linked beside the working tree).

use crate::backend::MonBackend;
use crate::checks::c01::{short_sig, tail};
use crate::crash::build_image;
use crate::model::*;
use crate::ops::*;
use crate::recover::window;
use crate::report::{Report, Tier, guarded, run_cases};
use crate::rng::{Rng, mix};
use crate::world::*;
use redb::{ReadableDatabase as _, ReadableTable as _};
use redb3::{ReadableDatabase as _, ReadableMultimapTable as _, ReadableTable as _, ReadableTableMetadata as _};
use serde_json::json;
use std::collections::{BTreeMap, BTreeSet};
use std::sync::{Arc, Mutex};

/// in-memory storage for redb 3.0.0
#[derive(Debug, Clone)]
pub struct Mem3(pub Arc<Mutex<Vec<u8>>>);

impl redb3::StorageBackend for Mem3 {
    fn len(&self) -> Result<u64, std::io::Error> {
        Ok(self.0.lock().unwrap().len() as u64)
    }
    fn read(&self, offset: u64, out: &mut [u8]) -> Result<(), std::io::Error> {
        let g = self.0.lock().unwrap();
        let end = offset as usize + out.len();
        if end > g.len() {
            return Err(std::io::Error::new(std::io::ErrorKind::UnexpectedEof, "eof"));
        }
        out.copy_from_slice(&g[offset as usize..end]);
        Ok(())
    }
    fn set_len(&self, len: u64) -> Result<(), std::io::Error> {
        self.0.lock().unwrap().resize(len as usize, 0);
        Ok(())
    }
    fn sync_data(&self) -> Result<(), std::io::Error> {
        Ok(())
    }
    fn write(&self, offset: u64, data: &[u8]) -> Result<(), std::io::Error> {
        let mut g = self.0.lock().unwrap();
        let end = offset as usize + data.len();
        if end > g.len() {
            return Err(std::io::Error::new(std::io::ErrorKind::InvalidInput, "beyond end"));
        }
        g[offset as usize..end].copy_from_slice(data);
        Ok(())
    }
}

fn s3<E: std::fmt::Display>(ctx: &'static str) -> impl FnOnce(E) -> String {
    move |e| format!("3.0.0 {ctx}: {e}")
}

fn open3(img: Vec<u8>) -> Result<(redb3::Database, Mem3), String> {
    let m = Mem3(Arc::new(Mutex::new(img)));
    let db = redb3::Database::builder()
        .create_with_backend(m.clone())
        .map_err(s3("open"))?;
    Ok((db, m))
}

/// Read every table through redb 3.0.0 into model form
fn dump3(db: &redb3::Database) -> Result<(Contents, BTreeSet<u64>), String> {
    let rt = db.begin_read().map_err(s3("begin_read"))?;
    let mut out = Contents::new();
    let names: Vec<String> = rt
        .list_tables()
        .map_err(s3("list_tables"))?
        .map(|h| redb3::TableHandle::name(&h).to_string())
        .collect();
    let mm: Vec<String> = rt
        .list_multimap_tables()
        .map_err(s3("list_multimap_tables"))?
        .map(|h| redb3::MultimapTableHandle::name(&h).to_string())
        .collect();
    for name in names {
        let mut m = BTreeMap::new();
        match Kind::of_name(&name).ok_or_else(|| format!("3.0.0 lists unknown table {name}"))? {
            Kind::A => {
                let d: redb3::TableDefinition<u64, &[u8]> = redb3::TableDefinition::new(&name);
                let t = rt.open_table(d).map_err(s3("open_table"))?;
                for e in t.iter().map_err(s3("iter"))? {
                    let (k, v) = e.map_err(s3("iter next"))?;
                    m.insert(k.value().to_be_bytes().to_vec(), v.value().to_vec());
                }
                if t.len().map_err(s3("len"))? != m.len() as u64 {
                    return Err(format!("3.0.0: len() of {name} disagrees with iteration"));
                }
            }
            Kind::B => {
                let d: redb3::TableDefinition<&[u8], &[u8]> = redb3::TableDefinition::new(&name);
                let t = rt.open_table(d).map_err(s3("open_table"))?;
                for e in t.iter().map_err(s3("iter"))? {
                    let (k, v) = e.map_err(s3("iter next"))?;
                    m.insert(k.value().to_vec(), v.value().to_vec());
                }
            }
            Kind::F => {
                let d: redb3::TableDefinition<u64, u64> = redb3::TableDefinition::new(&name);
                let t = rt.open_table(d).map_err(s3("open_table"))?;
                for e in t.iter().map_err(s3("iter"))? {
                    let (k, v) = e.map_err(s3("iter next"))?;
                    m.insert(k.value().to_be_bytes().to_vec(), v.value().to_be_bytes().to_vec());
                }
            }
            _ => return Err(format!("3.0.0 lists multimap {name} as a normal table")),
        }
        out.insert(name, TableModel::N(m));
    }
    for name in mm {
        let mut m: BTreeMap<Vec<u8>, BTreeSet<Vec<u8>>> = BTreeMap::new();
        match Kind::of_name(&name).ok_or_else(|| format!("3.0.0 lists unknown multimap {name}"))? {
            Kind::D => {
                let d: redb3::MultimapTableDefinition<u64, &[u8]> = redb3::MultimapTableDefinition::new(&name);
                let t = rt.open_multimap_table(d).map_err(s3("open_multimap_table"))?;
                for e in t.iter().map_err(s3("mm iter"))? {
                    let (k, vs) = e.map_err(s3("mm iter next"))?;
                    let mut set = BTreeSet::new();
                    for v in vs {
                        set.insert(v.map_err(s3("mm value"))?.value().to_vec());
                    }
                    m.insert(k.value().to_be_bytes().to_vec(), set);
                }
            }
            Kind::E => {
                let d: redb3::MultimapTableDefinition<&[u8], u64> = redb3::MultimapTableDefinition::new(&name);
                let t = rt.open_multimap_table(d).map_err(s3("open_multimap_table"))?;
                for e in t.iter().map_err(s3("mm iter"))? {
                    let (k, vs) = e.map_err(s3("mm iter next"))?;
                    let mut set = BTreeSet::new();
                    for v in vs {
                        set.insert(v.map_err(s3("mm value"))?.value().to_be_bytes().to_vec());
                    }
                    m.insert(k.value().to_vec(), set);
                }
            }
            _ => return Err(format!("3.0.0 lists normal table {name} as a multimap")),
        }
        out.insert(name, TableModel::M(m));
    }
    drop(rt);
    let txn = db.begin_write().map_err(s3("begin_write"))?;
    let ids: BTreeSet<u64> = txn.list_persistent_savepoints().map_err(s3("list_persistent_savepoints"))?.collect();
    txn.abort().map_err(s3("abort"))?;
    Ok((out, ids))
}

/// a few transactions written by redb 3.0.0, mirrored in the model
fn write3(db: &redb3::Database, model: &mut Contents, rng: &mut Rng, txns: u64) -> Result<(), String> {
    for _ in 0..txns {
        let mut txn = db.begin_write().map_err(s3("begin_write"))?;
        if rng.chance(1, 4) {
            txn.set_two_phase_commit(true);
        }
        if rng.chance(1, 4) {
            txn.set_quick_repair(true);
        }
        let n = rng.range(1, 40);
        {
            let a: redb3::TableDefinition<u64, &[u8]> = redb3::TableDefinition::new("A0");
            let b: redb3::TableDefinition<&[u8], &[u8]> = redb3::TableDefinition::new("B0");
            let d: redb3::MultimapTableDefinition<u64, &[u8]> = redb3::MultimapTableDefinition::new("D0");
            let mut ta = txn.open_table(a).map_err(s3("open_table"))?;
            let mut tb = txn.open_table(b).map_err(s3("open_table"))?;
            let mut td = txn.open_multimap_table(d).map_err(s3("open_multimap_table"))?;
            model.entry("A0".into()).or_insert_with(|| TableModel::new(Kind::A));
            model.entry("B0".into()).or_insert_with(|| TableModel::new(Kind::B));
            model.entry("D0".into()).or_insert_with(|| TableModel::new(Kind::D));
            for _ in 0..n {
                match rng.below(6) {
                    0 | 1 => {
                        let k = key_u64(rng.below(200));
                        let l = value_len(rng, 4096, 3);
                        let v = rng.bytes(l);
                        ta.insert(u64::from_be_bytes(k.clone().try_into().unwrap()), v.as_slice()).map_err(s3("insert"))?;
                        model.get_mut("A0").unwrap().n().insert(k, v);
                    }
                    2 => {
                        let k = key_u64(rng.below(200));
                        ta.remove(u64::from_be_bytes(k.clone().try_into().unwrap())).map_err(s3("remove"))?;
                        model.get_mut("A0").unwrap().n().remove(&k);
                    }
                    3 | 4 => {
                        // long shared prefixes: 3.0.0 stores full keys as separators, the working
                        // tree shortens them
                        let mut k = vec![b'p'; 60 + rng.usize(200)];
                        k.extend_from_slice(&rng.below(3000).to_be_bytes());
                        let l = rng.usize(40);
                        let v = rng.bytes(l);
                        tb.insert(k.as_slice(), v.as_slice()).map_err(s3("insert"))?;
                        model.get_mut("B0").unwrap().n().insert(k, v);
                    }
                    _ => {
                        let k = key_u64(rng.below(12));
                        let v = mm_value_bytes(rng.below(300), 4096);
                        td.insert(u64::from_be_bytes(k.clone().try_into().unwrap()), v.as_slice()).map_err(s3("mm insert"))?;
                        model.get_mut("D0").unwrap().m().entry(k).or_default().insert(v);
                    }
                }
            }
        }
        txn.commit().map_err(s3("commit"))?;
    }
    Ok(())
}

struct Out {
    direction: &'static str,
    files: u64,
    crash_files: u64,
    tables: u64,
    entries: u64,
    max_depth: u64,
    shortened_files: u64,
    savepoints: u64,
    /// files with a persistent savepoint taken on the empty database
    counts_extra: u64,
    trace: Option<Vec<String>>,
}

fn count_entries(c: &Contents) -> u64 {
    c.values().map(TableModel::len).sum()
}

fn new_to_old(seed: u64, case: u64, trace_on: bool, out: &mut Out) -> Result<(), String> {
    let mut rng = Rng::for_case(seed, "C19a", case);
    let cfg = Cfg {
        page_size: 4096,
        region_pages: None,
        cache: *rng.pick(&[0usize, 1 << 20, 1 << 30]),
    };
    let mut opts = Opts::default();
    opts.keyspace = 400;
    opts.max_ops = 80;
    let mut w = World::create(cfg, opts, rng).map_err(|e| e.text().to_string())?;
    if trace_on {
        w.trace = Some(vec![]);
    }
    w.be.set_sync_hook(crate::fmt::sync_hook(false));
    w.be.start_recording();
    // sometimes a persistent savepoint is taken while the database is still empty (no user root):
    // its record in the savepoint table has the shortest form the format allows
    if w.rng.chance(1, 3) {
        let mut p = w.plan();
        p.durable = true;
        p.end = End::Commit;
        p.n_ops = 0;
        p.pre_ops = 0;
        p.esp_create = false;
        p.psp_create = true;
        p.psp_delete = None;
        p.restore = None;
        w.run_txn(&p).map_err(|e| e.text().to_string())?;
        out.counts_extra += 1;
    }
    // a bulk of long-prefix keys so that branch pages hold shortened separators over several levels
    {
        let txn = w.db().begin_write().map_err(|e| e.to_string())?;
        let mut work = (*w.visible).clone();
        {
            let mut t = txn.open_table(def_b("B0")).map_err(|e| e.to_string())?;
            let m = work.entry("B0".into()).or_insert_with(|| TableModel::new(Kind::B)).n();
            let n = w.rng.range(200, 3000);
            for i in 0..n {
                let mut k = vec![b'p'; 40 + (i % 7) as usize * 30];
                k.extend_from_slice(&(i * 7).to_be_bytes());
                let v = w.rng.bytes((i % 9) as usize);
                n_insert::<ColBytes, ColBytes>(&mut t, m, &k, &v).map_err(|e| e.text().to_string())?;
            }
        }
        let req = w.be.log_len();
        txn.commit().map_err(|e| e.to_string())?;
        w.visible = Arc::new(work);
        let ack = w.be.log_len();
        w.commits.push(CommitPoint {
            seq: w.next_seq,
            contents: w.visible.clone(),
            psp: w.psp.iter().map(|(k, p)| (*k, p.snap.clone())).collect(),
            durable: true,
            req_pos: req,
            ack_pos: ack,
            desc: "bulk".into(),
        });
        w.next_seq += 1;
    }
    for _ in 0..w.rng.range(3, 12) {
        let plan = w.plan();
        w.run_txn(&plan).map_err(|e| e.text().to_string())?;
    }
    let crash = case % 3 == 2;
    let (img, floor, ceil) = if crash {
        let (base, log) = {
            let st = w.be.lock();
            (st.base.clone(), st.log.clone())
        };
        let pos = w.rng.range(1, log.len() as u64) as usize;
        let sync_pos = log[..pos].iter().rposition(|e| matches!(e, crate::backend::Ev::Sync)).map(|i| i + 1).unwrap_or(0);
        let applied: Vec<usize> = (sync_pos..pos).filter(|_| w.rng.chance(2, 3)).collect();
        let (f, c) = window(&w.commits, pos);
        out.crash_files += 1;
        (build_image(&base, &log, sync_pos, &applied, None), f, c)
    } else {
        w.close();
        w.mark_all_durable();
        let l = w.commits.len() - 1;
        (w.be.image(), l, l)
    };
    out.trace = w.trace.take();
    if let Some(e) = w.sync_errors.first() {
        return Err(format!("format: {e}"));
    }
    out.max_depth = out.max_depth.max(w.sync_obs.get("max.user_tree_depth").copied().unwrap_or(0));
    if let Ok(p) = std::env::var("RV_C19_DUMP") {
        std::fs::write(p, &img).ok();
    }
    // does the closing commit's saved allocator state describe more pages than the trimmed file?
    let trimmed_after_save = match crate::fmt::check_image(&img, false) {
        Ok((f, d)) => f
            .alloc_state
            .as_ref()
            .and_then(|a| a.regions.last())
            .and_then(|r| crate::fmt::BuddyImage::parse(r))
            .map(|b| u64::from(b.num_pages) > d.layout.region_pages(d.layout.num_regions() - 1))
            .unwrap_or(false),
        Err(_) => false,
    };
    // --- 3.0.0 reads it
    let commits = w.commits.clone();
    let r = guarded(|| -> Result<(Contents, usize), String> {
        let (mut db3, mem) = open3(img)?;
        let (got, ids) = dump3(&db3)?;
        let mut matched = None;
        for i in (floor..=ceil).rev() {
            if *commits[i].contents == got && commits[i].psp.keys().copied().collect::<BTreeSet<u64>>() == ids {
                matched = Some(i);
                break;
            }
        }
        let Some(mi) = matched else {
            let d = diff_contents(&commits[ceil].contents, &got).unwrap_or_else(|| format!("savepoints {ids:?} vs {:?}", commits[ceil].psp.keys().collect::<Vec<_>>()));
            return Err(format!("3.0.0 reads different contents from a file written by the working tree: {d}"));
        };
        match db3.check_integrity() {
            Ok(true) => {}
            Ok(false) => {
                return Err(format!(
                    "3.0.0's check_integrity() returned Ok(false) on a file written by the working tree [{}]",
                    if trimmed_after_save {
                        "clean close trimmed the file after saving the allocator state"
                    } else {
                        "allocator state saved for the exact file size"
                    }
                ));
            }
            Err(e) => return Err(format!("3.0.0's check_integrity() failed on a file written by the working tree: {e}")),
        }
        // continued by 3.0.0, read back by the working tree
        let mut model = (*commits[mi].contents).clone();
        let mut r2 = Rng::new(mix(seed, case));
        write3(&db3, &mut model, &mut r2, 5)?;
        drop(db3);
        let img2 = mem.0.lock().unwrap().clone();
        let be = MonBackend::from_image(img2);
        let mut b = redb::Database::builder();
        b.set_cache_size(1 << 20);
        let mut db = b.create_with_backend(be.clone()).map_err(|e| format!("the working tree cannot reopen the file after 3.0.0 continued it: {e}"))?;
        let back = dump_db(&db).map_err(|e| e.text().to_string())?;
        if let Some(d) = diff_contents(&model, &back) {
            return Err(format!("after 3.0.0 continued the file the working tree reads different contents: {d}"));
        }
        match db.check_integrity() {
            Ok(true) => {}
            other => return Err(format!("check_integrity() on the file continued by 3.0.0 returned {other:?}")),
        }
        Ok((model, mi))
    });
    match r {
        Err(p) => Err(format!("working tree -> 3.0.0: panic: {}", p.short())),
        Ok(Err(e)) => Err(format!("working tree -> 3.0.0: {e}")),
        Ok(Ok((model, mi))) => {
            out.files += 1;
            out.tables += model.len() as u64;
            out.entries += count_entries(&model);
            out.savepoints += commits[mi].psp.len() as u64;
            Ok(())
        }
    }
}

fn old_to_new(seed: u64, case: u64, out: &mut Out) -> Result<(), String> {
    let mut rng = Rng::for_case(seed, "C19b", case);
    let r = guarded(|| -> Result<Contents, String> {
        let (db3, mem) = open3(vec![])?;
        let mut model = Contents::new();
        let nt = rng.range(2, 10);
        write3(&db3, &mut model, &mut rng, nt)?;
        let with_sp = rng.bool();
        let mut sp_ids = BTreeSet::new();
        if with_sp {
            let txn = db3.begin_write().map_err(s3("begin_write"))?;
            sp_ids.insert(txn.persistent_savepoint().map_err(s3("persistent_savepoint"))?);
            txn.commit().map_err(s3("commit"))?;
            write3(&db3, &mut model, &mut rng, 2)?;
        }
        drop(db3);
        let img = mem.0.lock().unwrap().clone();
        // --- the working tree reads it
        let be = MonBackend::from_image(img);
        be.set_sync_hook(crate::fmt::sync_hook(false));
        let mut b = redb::Database::builder();
        b.set_cache_size(1 << 20);
        let mut db = b.create_with_backend(be.clone()).map_err(|e| format!("the working tree cannot open a file written by 3.0.0: {e}"))?;
        let got = dump_db(&db).map_err(|e| e.text().to_string())?;
        if let Some(d) = diff_contents(&model, &got) {
            return Err(format!("the working tree reads different contents from a file written by 3.0.0: {d}"));
        }
        match db.check_integrity() {
            Ok(true) => {}
            other => return Err(format!("check_integrity() on a file written by 3.0.0 returned {other:?}")),
        }
        {
            let txn = db.begin_write().map_err(|e| e.to_string())?;
            let ids = list_psp(&txn).map_err(|e| e.text().to_string())?;
            txn.abort().map_err(|e| e.to_string())?;
            if ids != sp_ids {
                return Err(format!("the working tree lists persistent savepoints {ids:?}, 3.0.0 created {sp_ids:?}"));
            }
        }
        // continued by the working tree, read back by 3.0.0
        for _ in 0..5 {
            let txn = db.begin_write().map_err(|e| e.to_string())?;
            {
                let mut t = txn.open_table(def_b("B0")).map_err(|e| e.to_string())?;
                let m = model.entry("B0".into()).or_insert_with(|| TableModel::new(Kind::B)).n();
                for _ in 0..rng.range(1, 60) {
                    let mut k = vec![b'p'; 60 + rng.usize(200)];
                    k.extend_from_slice(&rng.below(3000).to_be_bytes());
                    if rng.chance(3, 4) {
                        let l = rng.usize(30);
                        let v = rng.bytes(l);
                        n_insert::<ColBytes, ColBytes>(&mut t, m, &k, &v).map_err(|e| e.text().to_string())?;
                    } else {
                        n_remove::<ColBytes, ColBytes>(&mut t, m, &k).map_err(|e| e.text().to_string())?;
                    }
                }
            }
            txn.commit().map_err(|e| e.to_string())?;
        }
        drop(db);
        if let Some(e) = be.lock().sync_errors.first() {
            return Err(format!("format: {e}"));
        }
        let (mut db3, _) = open3(be.image())?;
        let (back, _) = dump3(&db3)?;
        if let Some(d) = diff_contents(&model, &back) {
            return Err(format!("after the working tree continued a 3.0.0 file, 3.0.0 reads different contents: {d}"));
        }
        match db3.check_integrity() {
            Ok(true) => {}
            other => return Err(format!("3.0.0's check_integrity() on the continued file returned {:?}", other.map_err(|e| e.to_string()))),
        }
        Ok(model)
    });
    match r {
        Err(p) => Err(format!("3.0.0 -> working tree: panic: {}", p.short())),
        Ok(Err(e)) => Err(format!("3.0.0 -> working tree: {e}")),
        Ok(Ok(model)) => {
            out.files += 1;
            out.tables += model.len() as u64;
            out.entries += count_entries(&model);
            Ok(())
        }
    }
}

/// composite built-in key/value types: a separate stratum (see known_findings.json)
fn composite_stratum(case: u64) -> Result<(), String> {
    let which = case % 4;
    let be = MonBackend::new();
    {
        let db = redb::Database::builder().create_with_backend(be.clone()).map_err(|e| e.to_string())?;
        let txn = db.begin_write().map_err(|e| e.to_string())?;
        match which {
            0 => {
                let d: redb::TableDefinition<Option<u64>, u64> = redb::TableDefinition::new("c");
                txn.open_table(d).map_err(|e| e.to_string())?.insert(Some(1), 1).map_err(|e| e.to_string())?;
            }
            1 => {
                let d: redb::TableDefinition<(u64, u32), u64> = redb::TableDefinition::new("c");
                txn.open_table(d).map_err(|e| e.to_string())?.insert((1, 2), 1).map_err(|e| e.to_string())?;
            }
            2 => {
                let d: redb::TableDefinition<u64, Vec<u64>> = redb::TableDefinition::new("c");
                txn.open_table(d).map_err(|e| e.to_string())?.insert(1, vec![1, 2]).map_err(|e| e.to_string())?;
            }
            _ => {
                let d: redb::TableDefinition<[u8; 4], u64> = redb::TableDefinition::new("c");
                txn.open_table(d).map_err(|e| e.to_string())?.insert([1, 2, 3, 4], 1).map_err(|e| e.to_string())?;
            }
        }
        txn.commit().map_err(|e| e.to_string())?;
    }
    let tname = ["Option<u64>", "(u64,u32)", "Vec<u64>", "[u8;4]"][which as usize];
    let img = be.image();
    let r = guarded(|| -> Result<(), String> {
        let (mut db3, _) = open3(img)?;
        let rt = db3.begin_read().map_err(s3("begin_read"))?;
        let n = rt.list_tables().map_err(s3("list_tables"))?.count();
        drop(rt);
        if n != 1 {
            return Err(format!("3.0.0 lists {n} tables"));
        }
        match db3.check_integrity() {
            Ok(true) => Ok(()),
            other => Err(format!("3.0.0 check_integrity returned {:?}", other.map_err(|e| e.to_string()))),
        }
    });
    match r {
        Ok(Ok(())) => Ok(()),
        Ok(Err(e)) => Err(format!("working tree -> 3.0.0, composite built-in type {tname}: {e}")),
        Err(p) => Err(format!("working tree -> 3.0.0, composite built-in type {tname}: 3.0.0 panicked: {}", p.short())),
    }
}

/// the other direction for composites must work: 3.0.0 writes, the working tree reads
fn composite_reverse(case: u64) -> Result<(), String> {
    let which = case % 3;
    let r = guarded(|| -> Result<(), String> {
        let (db3, mem) = open3(vec![])?;
        let txn = db3.begin_write().map_err(s3("begin_write"))?;
        match which {
            0 => {
                let d: redb3::TableDefinition<Option<u64>, u64> = redb3::TableDefinition::new("c");
                txn.open_table(d).map_err(s3("open_table"))?.insert(Some(7), 70).map_err(s3("insert"))?;
            }
            1 => {
                let d: redb3::TableDefinition<(u64, u32), u64> = redb3::TableDefinition::new("c");
                txn.open_table(d).map_err(s3("open_table"))?.insert((7, 8), 70).map_err(s3("insert"))?;
            }
            _ => {
                let d: redb3::TableDefinition<(u32, &str), u64> = redb3::TableDefinition::new("c");
                txn.open_table(d).map_err(s3("open_table"))?.insert((7, "x"), 70).map_err(s3("insert"))?;
            }
        }
        txn.commit().map_err(s3("commit"))?;
        drop(db3);
        let be = MonBackend::from_image(mem.0.lock().unwrap().clone());
        let mut db = redb::Database::builder().create_with_backend(be).map_err(|e| e.to_string())?;
        let rt = db.begin_read().map_err(|e| e.to_string())?;
        let v = match which {
            0 => {
                let d: redb::TableDefinition<Option<u64>, u64> = redb::TableDefinition::new("c");
                rt.open_table(d).map_err(|e| format!("open_table: {e}"))?.get(Some(7)).map_err(|e| e.to_string())?.map(|g| g.value())
            }
            1 => {
                let d: redb::TableDefinition<(u64, u32), u64> = redb::TableDefinition::new("c");
                rt.open_table(d).map_err(|e| format!("open_table: {e}"))?.get((7, 8)).map_err(|e| e.to_string())?.map(|g| g.value())
            }
            _ => {
                let d: redb::TableDefinition<(u32, &str), u64> = redb::TableDefinition::new("c");
                rt.open_table(d).map_err(|e| format!("open_table: {e}"))?.get((7, "x")).map_err(|e| e.to_string())?.map(|g| g.value())
            }
        };
        drop(rt);
        if v != Some(70) {
            return Err(format!("read {v:?} instead of Some(70)"));
        }
        match db.check_integrity() {
            Ok(true) => Ok(()),
            other => Err(format!("check_integrity returned {other:?}")),
        }
    });
    match r {
        Ok(Ok(())) => Ok(()),
        Ok(Err(e)) => Err(format!("3.0.0 -> working tree, composite built-in type: {e}")),
        Err(p) => Err(format!("3.0.0 -> working tree, composite built-in type: panic: {}", p.short())),
    }
}

pub fn run(rep: &Report) {
    rep.set_rule(
        "case = one database file crossing versions. Direction A: the working tree writes a history (normal and multimap tables of plain key types, 200-3000 long-common-prefix keys so that branch pages hold shortened separators over several levels, values up to 3 pages, persistent savepoints, all commit strategies); the file -- at clean close, or a crash image at a random log position with a random subset of unsynced writes -- is opened by redb 3.0.0 (linked into the harness from the offline registry): contents and persistent savepoints must equal an admissible commit point, 3.0.0's check_integrity() must be Ok(true); 3.0.0 then continues the file for 5 transactions and the working tree must read back exactly that and pass its own check. Direction B: 3.0.0 writes (incl. a persistent savepoint), the working tree reads, checks, continues for 5 transactions with long-prefix keys, 3.0.0 reads back. Composite built-in types are a separate stratum in both directions. evaluations = files crossed; distinct_nontrivial = distinct files with a tree of depth >= 3 or a persistent savepoint",
    );
    rep.assume("one older release (3.0.0), 4 KiB pages only (3.0.0 cannot be told another page size)");
    let n = match rep.tier {
        Tier::Quick => 10_000u64,
        Tier::Thorough => 100_000u64,
    };
    run_cases(
        rep,
        n,
        |case| {
            let replay = json!({"check": "C19", "seed": rep.seed, "case": case, "tier": rep.tier.name()});
            let trace_on = rep.replay_only.is_some();
            let mut out = Out { direction: "", files: 0, crash_files: 0, tables: 0, entries: 0, max_depth: 0, shortened_files: 0, savepoints: 0, counts_extra: 0, trace: None };
            let res = match case % 10 {
                9 => {
                    out.direction = "composite stratum";
                    rep.count("composite.working_tree_to_3_0_0", 1);
                    let a = composite_stratum(case / 10);
                    let b = composite_reverse(case / 10);
                    rep.count("composite.3_0_0_to_working_tree", 1);
                    if let Err(e) = &b {
                        rep.violation(format!("xver:{}", short_sig(e)), format!("case {case}: {e}"), replay.clone());
                    }
                    a
                }
                x if x % 2 == 0 => {
                    out.direction = "working tree -> 3.0.0 -> working tree";
                    new_to_old(rep.seed, case, trace_on, &mut out)
                }
                _ => {
                    out.direction = "3.0.0 -> working tree -> 3.0.0";
                    old_to_new(rep.seed, case, &mut out)
                }
            };
            rep.eval(1);
            rep.count(&format!("direction.{}", out.direction), 1);
            rep.count("files_crossed", out.files);
            rep.count("crash_image_files", out.crash_files);
            rep.count("tables_compared", out.tables);
            rep.count("entries_compared", out.entries);
            rep.count("persistent_savepoints_compared", out.savepoints);
            rep.count("files_with_a_savepoint_of_the_empty_database", out.counts_extra);
            rep.count_max("max.user_tree_depth", out.max_depth);
            let _ = out.shortened_files;
            if out.max_depth >= 3 || out.savepoints > 0 {
                rep.distinct(mix(case, out.entries));
            }
            match res {
                Err(e) => rep.violation(
                    format!("xver:{}", short_sig(&e)),
                    format!("case {case} ({}): {e}; trace tail {:?}", out.direction, tail(&out.trace)),
                    replay,
                ),
                Ok(()) => {
                    if rep.want_sample() && out.files > 0 {
                        rep.sample(json!({"case": case, "direction": out.direction, "tables": out.tables, "entries": out.entries,
                            "max_tree_depth": out.max_depth, "persistent_savepoints": out.savepoints, "crash_image": out.crash_files > 0}));
                    }
                }
            }
        },
        |case, p| {
            rep.violation(
                format!("panic:{}", p.location),
                format!("case {case}: {}", p.short()),
                json!({"check": "C19", "seed": rep.seed, "case": case, "tier": rep.tier.name()}),
            );
        },
    );
}
