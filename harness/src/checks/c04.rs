//! C04 -- a table behaves as an ordered map (random sequences over every key type, threshold sweeps,
//! configuration independence, commit + reopen), with M2 judging every durable image.

use crate::backend::MonBackend;
use crate::checks::c01::short_sig;
use crate::model::*;
use crate::ops::*;
use crate::report::{Report, Tier, run_cases};
use crate::rng::{Rng, mix};
use crate::typed::*;
use crate::world::{Cfg, value_len};
use redb::{Database, ReadableDatabase, TableDefinition};
use serde_json::json;
use std::collections::BTreeMap;
use std::ops::Bound;

pub const KEY_TYPES: [&str; 12] = [
    "u64", "&[u8]", "&str", "i64", "u128", "[u8;16]", "(u64,u32)", "(u32,&str)", "Option<&str>", "[&str;2]",
    "&[u8] (big)", "&str (big)",
];

pub struct TDb {
    pub cfg: Cfg,
    pub be: MonBackend,
    pub db: Option<Database>,
    pub obs: BTreeMap<String, u64>,
    pub sync_errors: Vec<String>,
    pub violations: Vec<String>,
    pub strict_m2: bool,
}

impl TDb {
    pub fn create(cfg: Cfg, strict_m2: bool) -> R<TDb> {
        let be = MonBackend::new();
        if strict_m2 {
            be.set_sync_hook(crate::fmt::sync_hook(false));
        }
        let db = cfg
            .builder()
            .create_with_backend(be.clone())
            .map_err(se("create_with_backend"))?;
        Ok(TDb {
            cfg,
            be,
            db: Some(db),
            obs: BTreeMap::new(),
            sync_errors: vec![],
            violations: vec![],
            strict_m2,
        })
    }
    pub fn db(&self) -> &Database {
        self.db.as_ref().unwrap()
    }
    pub fn harvest(&mut self) {
        let mut st = self.be.lock();
        for (k, v) in std::mem::take(&mut st.sync_obs) {
            let e = self.obs.entry(k.clone()).or_insert(0);
            if k.starts_with("max.") {
                *e = (*e).max(v);
            } else {
                *e += v;
            }
        }
        self.sync_errors.append(&mut st.sync_errors);
        self.violations.append(&mut st.violations);
    }
    pub fn reopen(&mut self) -> R<()> {
        self.db = None;
        self.harvest();
        let img = self.be.image();
        let closes = self.be.close_count();
        ensure!(closes == 1, "backend close() called {closes} times");
        let be = MonBackend::from_image(img);
        if self.strict_m2 {
            be.set_sync_hook(crate::fmt::sync_hook(false));
        }
        self.be = be;
        self.db = Some(
            self.cfg
                .builder()
                .create_with_backend(self.be.clone())
                .map_err(se("reopen"))?,
        );
        Ok(())
    }
    pub fn close(&mut self) {
        self.db = None;
        self.harvest();
    }
}

fn gen_bounds<KC: KeyGen>(rng: &mut Rng, keyspace: u64) -> (Bound<Vec<u8>>, Bound<Vec<u8>>) {
    let mut mk = |rng: &mut Rng| match rng.below(4) {
        0 => Bound::Unbounded,
        1 => Bound::Excluded(pick_key::<KC>(rng, keyspace)),
        _ => Bound::Included(pick_key::<KC>(rng, keyspace)),
    };
    let a = mk(rng);
    let b = mk(rng);
    let key = |b: &Bound<Vec<u8>>| match b {
        Bound::Included(x) | Bound::Excluded(x) => Some(x.clone()),
        Bound::Unbounded => None,
    };
    match (key(&a), key(&b)) {
        (Some(x), Some(y)) if x > y && rng.chance(9, 10) => (b, a),
        _ => (a, b),
    }
}

fn gen_val<VC: Col>(rng: &mut Rng, page: usize, max_pages: usize) -> Vec<u8> {
    match VC::FIXED {
        Some(w) => rng.bytes(w),
        None => {
            let l = value_len(rng, page, max_pages);
            rng.bytes(l)
        }
    }
}

pub struct SeqStats {
    pub ops: u64,
    pub commits: u64,
    pub reopens: u64,
    pub max_len: u64,
    pub by_op: BTreeMap<&'static str, u64>,
}

/// One random sequence over Table<KC, VC>. `reserve` enables insert_reserve (only for &[u8] values).
#[allow(clippy::too_many_arguments)]
pub fn seq_case<KC: KeyGen, VC: Col>(
    tdb: &mut TDb,
    rng: &mut Rng,
    trace: &mut Option<Vec<String>>,
    reserve: Option<
        fn(
            &mut redb::Table<'_, KC::T, VC::T>,
            &mut BTreeMap<Vec<u8>, Vec<u8>>,
            &[u8],
            &[u8],
        ) -> R<()>,
    >,
) -> R<SeqStats> {
    let def: TableDefinition<KC::T, VC::T> = TableDefinition::new("t");
    let mut m: BTreeMap<Vec<u8>, Vec<u8>> = BTreeMap::new();
    let page = tdb.cfg.page_size;
    let keyspace = *rng.pick(&[6u64, 24, 64, 200, 600]);
    let n_txn = rng.range(1, 8);
    // value sizes: mostly up to 2 pages, sometimes 5, and in the "huge" stratum tens to hundreds of
    // pages (bounded by what one region can hold when the region size is configured small, and by
    // ~1.5 MB otherwise)
    let max_pages = if rng.chance(1, 6) {
        match tdb.cfg.region_pages {
            Some(rp) => *rng.pick(&[5usize, 5, (rp as usize / 4).max(5)]),
            None => *rng.pick(&[5usize, 40, (1_500_000 / page).min(400)]),
        }
    } else {
        2
    };
    let mut st = SeqStats {
        ops: 0,
        commits: 0,
        reopens: 0,
        max_len: 0,
        by_op: BTreeMap::new(),
    };
    if max_pages > 5 {
        *st.by_op.entry("huge_value_stratum").or_insert(0) += 1;
    }
    macro_rules! tr {
        ($($a:tt)*) => { if let Some(t) = trace.as_mut() { t.push(format!($($a)*)); } };
    }
    for _ in 0..n_txn {
        let mut txn = tdb.db().begin_write().map_err(se("begin_write"))?;
        let committed_model = m.clone();
        {
            let mut t = txn.open_table(def).map_err(se("open_table"))?;
            let n_ops = rng.below(70);
            // occasionally a bulk ascending / descending load, to build tall trees
            if rng.chance(1, 5) {
                let n = rng.range(20, 300);
                let start = rng.below(keyspace.max(1));
                let desc = rng.bool();
                tr!("bulk load n={n} start={start} desc={desc}");
                for j in 0..n {
                    let idx = if desc { start + n - j } else { start + j };
                    let k = KC::key(idx);
                    let v = gen_val::<VC>(rng, page, 1);
                    n_insert::<KC, VC>(&mut t, &mut m, &k, &v)?;
                }
                *st.by_op.entry("bulk_load").or_insert(0) += 1;
            }
            for _ in 0..n_ops {
                st.ops += 1;
                let roll = rng.below(100);
                let name: &'static str;
                match roll {
                    0..=29 => {
                        let k = pick_key::<KC>(rng, keyspace);
                        let v = gen_val::<VC>(rng, page, max_pages);
                        tr!("insert {} <- {}B", hex(&k), v.len());
                        n_insert::<KC, VC>(&mut t, &mut m, &k, &v)?;
                        name = "insert";
                    }
                    30..=35 => {
                        let k = pick_key::<KC>(rng, keyspace);
                        let v = gen_val::<VC>(rng, page, max_pages);
                        if let Some(f) = reserve {
                            tr!("insert_reserve {} <- {}B", hex(&k), v.len());
                            f(&mut t, &mut m, &k, &v)?;
                            name = "insert_reserve";
                        } else {
                            n_insert::<KC, VC>(&mut t, &mut m, &k, &v)?;
                            name = "insert";
                        }
                    }
                    36..=47 => {
                        let k = pick_key::<KC>(rng, keyspace);
                        tr!("remove {}", hex(&k));
                        n_remove::<KC, VC>(&mut t, &mut m, &k)?;
                        name = "remove";
                    }
                    48..=54 => {
                        let k = pick_key::<KC>(rng, keyspace);
                        n_get::<KC, VC, _>(&t, &m, &k)?;
                        name = "get";
                    }
                    55..=60 => {
                        let k = pick_key::<KC>(rng, keyspace);
                        let v = gen_val::<VC>(rng, page, max_pages);
                        let replace = rng.chance(3, 4);
                        tr!("get_mut {} replace={replace} {}B", hex(&k), v.len());
                        n_get_mut::<KC, VC>(&mut t, &mut m, &k, &v, replace)?;
                        name = "get_mut";
                    }
                    61..=67 => {
                        let k = pick_key::<KC>(rng, keyspace);
                        let v = gen_val::<VC>(rng, page, max_pages);
                        let mode = rng.next();
                        tr!("entry {} mode={} {}B", hex(&k), mode % 4, v.len());
                        n_entry::<KC, VC>(&mut t, &mut m, &k, &v, mode)?;
                        name = "entry";
                    }
                    68..=75 => {
                        let (lo, hi) = gen_bounds::<KC>(rng, keyspace);
                        let pat = match rng.below(4) {
                            0 => u64::MAX,
                            1 => 0,
                            _ => rng.next(),
                        };
                        let lim = rng.range(1, 400) as usize;
                        n_range::<KC, VC, _>(&t, &m, &lo, &hi, pat, lim)?;
                        name = "range";
                    }
                    76..=78 => {
                        n_len::<KC, VC, _>(&t, &m)?;
                        n_first_last::<KC, VC, _>(&t, &m)?;
                        name = "len_first_last";
                    }
                    79..=83 => {
                        let first = rng.bool();
                        tr!("pop first={first}");
                        n_pop::<KC, VC>(&mut t, &mut m, first)?;
                        name = "pop";
                    }
                    84..=90 => {
                        let range = if rng.bool() {
                            Some(gen_bounds::<KC>(rng, keyspace))
                        } else {
                            None
                        };
                        let salt = rng.next();
                        let modulus = rng.range(2, 6);
                        tr!("retain in_range={} salt={salt} mod={modulus}", range.is_some());
                        n_retain::<KC, VC>(&mut t, &mut m, range, salt, modulus)?;
                        name = "retain";
                    }
                    _ => {
                        let range = if rng.bool() {
                            Some(gen_bounds::<KC>(rng, keyspace))
                        } else {
                            None
                        };
                        let salt = rng.next();
                        let modulus = rng.range(2, 6);
                        let take = rng.usize(40);
                        let pat = match rng.below(4) {
                            0 => u64::MAX,
                            1 => 0,
                            _ => rng.next(),
                        };
                        let close = rng.bool();
                        tr!("extract_if in_range={} salt={salt} mod={modulus} take={take} pat={pat:x} close={close}", range.is_some());
                        n_extract::<KC, VC>(&mut t, &mut m, range, salt, modulus, take, pat, close)?;
                        name = "extract_if";
                    }
                }
                *st.by_op.entry(name).or_insert(0) += 1;
            }
            n_verify_all::<KC, VC, _>(&t, &m)?;
            st.max_len = st.max_len.max(m.len() as u64);
        }
        if rng.chance(1, 8) {
            tr!("abort");
            txn.abort().map_err(se("abort"))?;
            m = committed_model;
        } else {
            if rng.chance(1, 4) {
                txn.set_two_phase_commit(true);
            }
            if rng.chance(1, 6) {
                txn.set_quick_repair(true);
            }
            tr!("commit");
            if rng.chance(1, 5) {
                txn.set_durability(redb::Durability::None).map_err(se("set_durability"))?;
            }
            txn.commit().map_err(se("commit"))?;
            st.commits += 1;
        }
        {
            let rt = tdb.db().begin_read().map_err(se("begin_read"))?;
            match rt.open_table(def) {
                Ok(t) => n_verify_all::<KC, VC, _>(&t, &m)?,
                Err(redb::TableError::TableDoesNotExist(_)) => {
                    ensure!(m.is_empty(), "table missing after commit although the model has {} entries", m.len());
                }
                Err(e) => return Err(Fail::Storage(format!("ro open_table: {e}"))),
            }
        }
        if rng.chance(1, 5) {
            tr!("reopen");
            tdb.reopen()?;
            st.reopens += 1;
            let rt = tdb.db().begin_read().map_err(se("begin_read"))?;
            match rt.open_table(def) {
                Ok(t) => n_verify_all::<KC, VC, _>(&t, &m)?,
                Err(redb::TableError::TableDoesNotExist(_)) => {
                    ensure!(m.is_empty(), "table missing after reopen although the model has {} entries", m.len());
                }
                Err(e) => return Err(Fail::Storage(format!("ro open_table: {e}"))),
            }
        }
    }
    Ok(st)
}

fn reserve_bytes<KC: Col>(
    t: &mut redb::Table<'_, KC::T, &'static [u8]>,
    m: &mut BTreeMap<Vec<u8>, Vec<u8>>,
    k: &[u8],
    v: &[u8],
) -> R<()> {
    n_insert_reserve::<KC>(t, m, k, v)
}

macro_rules! by_key_type {
    ($kt:expr, $vt:expr, $f:ident, $($args:expr),*) => {
        match ($kt, $vt) {
            (0, 0) => $f::<ColU64, ColBytes>($($args),*, Some(reserve_bytes::<ColU64>)),
            (1, 0) => $f::<ColBytes, ColBytes>($($args),*, Some(reserve_bytes::<ColBytes>)),
            (2, 0) => $f::<ColStr, ColBytes>($($args),*, Some(reserve_bytes::<ColStr>)),
            (3, 0) => $f::<ColI64, ColBytes>($($args),*, Some(reserve_bytes::<ColI64>)),
            (4, 0) => $f::<ColU128, ColBytes>($($args),*, Some(reserve_bytes::<ColU128>)),
            (5, 0) => $f::<ColArr16, ColBytes>($($args),*, Some(reserve_bytes::<ColArr16>)),
            (6, 0) => $f::<ColTupU64U32, ColBytes>($($args),*, Some(reserve_bytes::<ColTupU64U32>)),
            (7, 0) => $f::<ColTupU32Str, ColBytes>($($args),*, Some(reserve_bytes::<ColTupU32Str>)),
            (8, 0) => $f::<ColOptStr, ColBytes>($($args),*, Some(reserve_bytes::<ColOptStr>)),
            (9, 0) => $f::<ColStrArr2, ColBytes>($($args),*, Some(reserve_bytes::<ColStrArr2>)),
            (10, 0) => $f::<ColBytesBig, ColBytes>($($args),*, Some(reserve_bytes::<ColBytesBig>)),
            (11, 0) => $f::<ColStrBig, ColBytes>($($args),*, Some(reserve_bytes::<ColStrBig>)),
            (0, _) => $f::<ColU64, ColU64>($($args),*, None),
            (1, _) => $f::<ColBytes, ColU64>($($args),*, None),
            (2, _) => $f::<ColStr, ColU64>($($args),*, None),
            (3, _) => $f::<ColI64, ColU64>($($args),*, None),
            (4, _) => $f::<ColU128, ColU64>($($args),*, None),
            (5, _) => $f::<ColArr16, ColU64>($($args),*, None),
            (6, _) => $f::<ColTupU64U32, ColU64>($($args),*, None),
            (7, _) => $f::<ColTupU32Str, ColU64>($($args),*, None),
            (8, _) => $f::<ColOptStr, ColU64>($($args),*, None),
            (10, _) => $f::<ColBytesBig, ColU64>($($args),*, None),
            (11, _) => $f::<ColStrBig, ColU64>($($args),*, None),
            _ => $f::<ColStrArr2, ColU64>($($args),*, None),
        }
    };
}
pub(crate) use by_key_type;

pub const CFGS: [(usize, Option<u64>, usize); 8] = [
    (512, Some(32), 0),
    (512, Some(64), 1 << 20),
    (512, Some(256), 4096),
    (1024, Some(64), 65536),
    (1024, None, 1 << 30),
    (4096, Some(64), 0),
    (4096, None, 1 << 30),
    (16384, None, 1 << 20),
];

fn cfg_of(i: usize) -> Cfg {
    let (p, r, c) = CFGS[i % CFGS.len()];
    Cfg {
        page_size: p,
        region_pages: r,
        cache: c,
    }
}

/// threshold sweep: n entries whose total leaf size walks across `target` bytes
fn sweep_case<KC: KeyGen, VC: Col>(
    tdb: &mut TDb,
    rng: &mut Rng,
    _trace: &mut Option<Vec<String>>,
    _reserve: Option<
        fn(
            &mut redb::Table<'_, KC::T, VC::T>,
            &mut BTreeMap<Vec<u8>, Vec<u8>>,
            &[u8],
            &[u8],
        ) -> R<()>,
    >,
) -> R<SeqStats> {
    let def: TableDefinition<KC::T, VC::T> = TableDefinition::new("t");
    let page = tdb.cfg.page_size;
    let mut st = SeqStats {
        ops: 0,
        commits: 0,
        reopens: 0,
        max_len: 0,
        by_op: BTreeMap::new(),
    };
    let mut m: BTreeMap<Vec<u8>, Vec<u8>> = BTreeMap::new();
    let n = *rng.pick(&[1u64, 2, 3, 4, 7, 12, 40]);
    let target = *rng.pick(&[page / 3, page / 2, page, 2 * page, 3 * page]);
    let delta = rng.range(0, 40) as i64 - 20;
    let order = rng.below(3);
    let keys: Vec<Vec<u8>> = (0..n).map(|i| KC::key(i * 3 + 1)).collect();
    let klen: usize = keys.iter().map(Vec::len).sum();
    let overhead = 4 + if KC::FIXED.is_none() { 4 * n as usize } else { 0 }
        + if VC::FIXED.is_none() { 4 * n as usize } else { 0 };
    let total_val = (target as i64 + delta - overhead as i64 - klen as i64).max(0) as usize;
    let per = total_val / n as usize;
    let mut idx: Vec<usize> = (0..n as usize).collect();
    match order {
        0 => {}
        1 => idx.reverse(),
        _ => rng.shuffle(&mut idx),
    }
    let txn = tdb.db().begin_write().map_err(se("begin_write"))?;
    {
        let mut t = txn.open_table(def).map_err(se("open_table"))?;
        for (j, &i) in idx.iter().enumerate() {
            let l = match VC::FIXED {
                Some(w) => w,
                None => {
                    if j + 1 == idx.len() {
                        total_val - per * (n as usize - 1)
                    } else {
                        per
                    }
                }
            };
            let v = rng.bytes(l);
            n_insert::<KC, VC>(&mut t, &mut m, &keys[i], &v)?;
            st.ops += 1;
        }
        n_verify_all::<KC, VC, _>(&t, &m)?;
    }
    txn.commit().map_err(se("commit"))?;
    st.commits += 1;
    // grow one value by one byte at a time across the boundary, then delete in a chosen order
    let txn = tdb.db().begin_write().map_err(se("begin_write"))?;
    {
        let mut t = txn.open_table(def).map_err(se("open_table"))?;
        if VC::FIXED.is_none() {
            let k = &keys[rng.usize(keys.len())];
            let base = m[k].len();
            for extra in 1..=6usize {
                let v = rng.bytes(base + extra);
                n_insert::<KC, VC>(&mut t, &mut m, k, &v)?;
                n_get::<KC, VC, _>(&t, &m, k)?;
                st.ops += 2;
            }
        }
        n_verify_all::<KC, VC, _>(&t, &m)?;
    }
    txn.commit().map_err(se("commit"))?;
    st.commits += 1;
    st.max_len = m.len() as u64;
    let txn = tdb.db().begin_write().map_err(se("begin_write"))?;
    {
        let mut t = txn.open_table(def).map_err(se("open_table"))?;
        rng.shuffle(&mut idx);
        for &i in &idx {
            n_remove::<KC, VC>(&mut t, &mut m, &keys[i])?;
            st.ops += 1;
            if rng.chance(1, 3) {
                n_verify_all::<KC, VC, _>(&t, &m)?;
            }
        }
        n_verify_all::<KC, VC, _>(&t, &m)?;
    }
    txn.commit().map_err(se("commit"))?;
    st.commits += 1;
    *st.by_op.entry("threshold_sweep").or_insert(0) += 1;
    Ok(st)
}

pub fn run(rep: &Report) {
    rep.set_rule(
        "case = (operation-sequence seed, key type of 12 (ten built-in key types with keys up to ~150 bytes, plus &[u8] and &str with keys of 0..9000 bytes, i.e. larger than a page at every configured page size), value type of 2, configuration of 8): a random sequence of insert/insert_reserve/get/get_mut/entry/remove/pop/range/first/last/len/retain(_in)/extract(_from)_if over 1-8 transactions with aborts, non-durable commits and reopen, every return value compared with a BTreeMap ordered by the key type, full forward+backward scan after every transaction, after commit and after reopen; the same sequence seed is run under several page/region/cache configurations against the same model (configuration independence); plus threshold sweeps that walk leaf sizes across page/3, page/2, page, 2*page, 3*page byte by byte. Every completed sync_data is decoded by the independent format decoder. distinct_nontrivial = distinct cases in which the decoder saw a tree of depth >= 2 or a multi-page leaf (i.e. splits / large values actually happened)",
    );
    rep.assume("value sizes stop at ~1.5 MB (400 pages at the small page sizes; a quarter of a region where the region size is configured small), key sizes at ~9 KB; key spaces of 6..600 keys");
    let (n_seq, n_sweep) = match rep.tier {
        Tier::Quick => (72_000u64, 30_000u64),
        Tier::Thorough => (900_000u64, 300_000u64),
    };
    let total = n_seq + n_sweep;
    run_cases(
        rep,
        total,
        |case| {
            let replay = json!({"check": "C04", "seed": rep.seed, "case": case, "tier": rep.tier.name()});
            let sweep = case >= n_seq;
            // several configurations share one sequence seed
            let (seq_id, cfg_i) = if sweep {
                (case, (case % 3) as usize * 3)
            } else {
                (case / 3, (case % 3) as usize + ((case / 3) % 3) as usize * 2)
            };
            let mut rng = Rng::for_case(rep.seed, if sweep { "C04sweep" } else { "C04seq" }, seq_id);
            let kt = rng.usize(KEY_TYPES.len());
            let vt = rng.usize(2);
            let cfg = cfg_of(cfg_i);
            let trace_on = rep.replay_only.is_some() || rep.want_sample();
            let mut trace = if trace_on { Some(vec![]) } else { None };
            let mut tdb = match TDb::create(cfg.clone(), true) {
                Ok(t) => t,
                Err(e) => {
                    rep.violation("create-failed", e.text().to_string(), replay);
                    return;
                }
            };
            let r = if sweep {
                by_key_type!(kt, vt, sweep_case, &mut tdb, &mut rng, &mut trace)
            } else {
                by_key_type!(kt, vt, seq_case, &mut tdb, &mut rng, &mut trace)
            };
            tdb.close();
            rep.eval(1);
            match r {
                Err(f) => {
                    let kind = match f {
                        Fail::Oracle(_) => "oracle",
                        Fail::Storage(_) => "error",
                    };
                    rep.violation(
                        format!("{kind}:{}", short_sig(f.text())),
                        format!(
                            "case {case} key={} value={} cfg={:?}: {}; trace tail {:?}",
                            KEY_TYPES[kt],
                            if vt == 0 { "&[u8]" } else { "u64" },
                            cfg,
                            f.text(),
                            crate::checks::c01::tail(&trace)
                        ),
                        replay,
                    );
                }
                Ok(st) => {
                    if let Some(e) = tdb.sync_errors.first() {
                        rep.violation(
                            format!("format:{}", short_sig(e)),
                            format!("case {case} key={} cfg={:?}: {e}", KEY_TYPES[kt], cfg),
                            replay.clone(),
                        );
                    }
                    if let Some(e) = tdb.violations.first() {
                        rep.violation(
                            format!("backend:{}", short_sig(e)),
                            format!("case {case}: {e}"),
                            replay.clone(),
                        );
                    }
                    rep.count("ops", st.ops);
                    rep.count("commits", st.commits);
                    rep.count("reopens", st.reopens);
                    rep.count_max("max.table_len", st.max_len);
                    for (k, v) in &st.by_op {
                        rep.count(&format!("op.{k}"), *v);
                    }
                    rep.count(&format!("keytype.{}", KEY_TYPES[kt]), 1);
                    rep.count(&format!("page_size.{}", cfg.page_size), 1);
                    for (k, v) in &tdb.obs {
                        if k.starts_with("max.") {
                            rep.count_max(&format!("m2.{k}"), *v);
                        } else {
                            rep.count(&format!("m2.{k}"), *v);
                        }
                    }
                    let depth = tdb.obs.get("max.user_tree_depth").copied().unwrap_or(0);
                    let multi = tdb.obs.get("user_multi_page_leaves").copied().unwrap_or(0);
                    if depth >= 2 || multi > 0 {
                        rep.distinct(mix(mix(seq_id, kt as u64 * 2 + vt as u64), cfg_i as u64 + if sweep { 100 } else { 0 }));
                        if depth >= 3 {
                            rep.count("cases.depth_ge_3", 1);
                        }
                    }
                    if rep.want_sample() {
                        rep.sample(json!({
                            "case": case, "kind": if sweep {"threshold sweep"} else {"random sequence"},
                            "key_type": KEY_TYPES[kt], "value_type": if vt == 0 { "&[u8]" } else { "u64" },
                            "cfg": cfg.json(), "ops": st.ops, "commits": st.commits,
                            "max_tree_depth_seen_by_decoder": depth,
                            "trace_head": trace.as_ref().map(|t| t.iter().take(25).cloned().collect::<Vec<_>>()),
                        }));
                    }
                }
            }
        },
        |case, p| {
            rep.violation(
                format!("panic:{}", p.location),
                format!("case {case}: {}", p.short()),
                json!({"check": "C04", "seed": rep.seed, "case": case, "tier": rep.tier.name()}),
            );
        },
    );
}
