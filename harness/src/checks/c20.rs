//! C20 -- the storage backend is used according to its contract. M1's online assertions (bounds,
//! copy-on-write set, set_len below a used page, calls after close, close count, read-only mutation)
//! over life-cycle scenarios, failing opens, injected failures and random histories.

use crate::backend::*;
use crate::checks::c01::{history, short_sig};
use crate::ops::*;
use crate::report::{Report, Tier, guarded, run_cases};
use crate::rng::{Rng, mix};
use crate::world::*;
use redb::{Database, ReadableDatabase, ReadableTable, TableDefinition};
use serde_json::json;
use std::collections::BTreeMap;

const T: TableDefinition<u64, &[u8]> = TableDefinition::new("A0");

struct Out {
    class: &'static str,
    detail: String,
    calls: u64,
    violation: Option<String>,
    sig: u64,
}

/// after a scenario: the backend must have been closed exactly once and no assertion may have fired
fn finish(be: &MonBackend, what: &str) -> Option<String> {
    let st = be.lock();
    if let Some(v) = st.violations.first() {
        return Some(format!("{what}: {v}"));
    }
    if st.counts.close != 1 {
        return Some(format!("{what}: close() was called {} times", st.counts.close));
    }
    None
}

fn base_images(seed: u64, idx: u64) -> Result<(Cfg, Vec<u8>, Vec<u8>), String> {
    // (clean-closed image, unclean image taken while the database was open)
    let mut rng = Rng::for_case(seed, "C20base", idx);
    let cfg = Cfg {
        page_size: *rng.pick(&[512usize, 1024, 4096]),
        region_pages: *rng.pick(&[Some(32u64), Some(64), None]),
        cache: 1 << 20,
    };
    let mut w = World::create(cfg.clone(), Opts::default(), rng).map_err(|e| e.text().to_string())?;
    for _ in 0..6 {
        let mut p = w.plan();
        p.end = End::Commit;
        w.run_txn(&p).map_err(|e| e.text().to_string())?;
    }
    let unclean = w.be.image();
    w.close();
    let clean = w.be.image();
    Ok((cfg, clean, unclean))
}

fn open_and_use(cfg: &Cfg, be: &MonBackend, abort_repair: bool) -> Result<String, String> {
    let mut b = cfg.builder();
    if abort_repair {
        b.set_repair_callback(|s| s.abort());
    }
    let be2 = be.clone();
    let r = guarded(move || b.create_with_backend(be2));
    match r {
        Err(p) => Err(format!("panic in open: {}", p.short())),
        Ok(Err(e)) => Ok(format!("open failed: {e}")),
        Ok(Ok(db)) => {
            let r = guarded(|| -> Result<(), String> {
                let txn = db.begin_write().map_err(|e| e.to_string())?;
                {
                    let mut t = txn.open_table(T).map_err(|e| e.to_string())?;
                    t.insert(7, [1u8; 33].as_slice()).map_err(|e| e.to_string())?;
                }
                txn.commit().map_err(|e| e.to_string())?;
                let rt = db.begin_read().map_err(|e| e.to_string())?;
                let t = rt.open_table(T).map_err(|e| e.to_string())?;
                let _ = t.get(7).map_err(|e| e.to_string())?;
                Ok(())
            });
            drop(db);
            match r {
                Err(p) => Err(format!("panic after open: {}", p.short())),
                Ok(Err(e)) => Ok(format!("opened; use failed: {e}")),
                Ok(Ok(())) => Ok("opened and used".into()),
            }
        }
    }
}

fn put32(img: &mut [u8], off: usize, v: u32) {
    img[off..off + 4].copy_from_slice(&v.to_le_bytes());
}

fn failing_open_case(seed: u64, case: u64) -> Out {
    let mut rng = Rng::for_case(seed, "C20open", case);
    let (cfg, clean, unclean) = match base_images(seed, case % 24) {
        Ok(x) => x,
        Err(e) => {
            return Out {
                class: "failing-open",
                detail: "base image".into(),
                calls: 0,
                violation: Some(format!("could not build the base image: {e}")),
                sig: 0,
            };
        }
    };
    let ps = cfg.page_size;
    let kind = case % 14;
    let mut abort_repair = false;
    let (name, img): (String, Vec<u8>) = match kind {
        0 => ("bad magic".into(), {
            let mut i = clean.clone();
            i[rng.usize(9)] ^= 0x40;
            i
        }),
        1 => {
            // short file that still starts with the magic number
            let l = rng.range(9, 319) as usize;
            (format!("truncated to {l} bytes (magic intact)"), clean[..l].to_vec())
        }
        2 => {
            let l = rng.range(320, ps as u64 * 2) as usize;
            (format!("truncated to {l} bytes"), clean[..l.min(clean.len())].to_vec())
        }
        3 => ("page size field changed".into(), {
            let mut i = clean.clone();
            put32(&mut i, 12, *rng.pick(&[0u32, 256, 8192, 3000, u32::MAX]));
            i
        }),
        4 => ("region max data pages changed".into(), {
            let mut i = clean.clone();
            put32(&mut i, 20, *rng.pick(&[0u32, 1, 7, u32::MAX, 1 << 21]));
            i
        }),
        5 => ("region header pages changed".into(), {
            let mut i = clean.clone();
            put32(&mut i, 16, *rng.pick(&[1u32, 1000, u32::MAX]));
            i
        }),
        6 => ("region counts changed".into(), {
            let mut i = clean.clone();
            put32(&mut i, 24, *rng.pick(&[0u32, 5, u32::MAX]));
            put32(&mut i, 28, *rng.pick(&[0u32, 5, u32::MAX]));
            i
        }),
        7 => ("both commit slots corrupted".into(), {
            let mut i = unclean.clone();
            let a = 64 + rng.usize(112);
            i[a] ^= 1;
            let b = 192 + rng.usize(112);
            i[b] ^= 1;
            i
        }),
        8 => ("file truncated to a non-layout length".into(), {
            let cut = rng.range(1, (clean.len() - 400) as u64) as usize;
            clean[..clean.len() - cut].to_vec()
        }),
        9 => ("file extended".into(), {
            let mut i = clean.clone();
            i.extend(vec![0u8; rng.range(1, 3 * ps as u64) as usize]);
            i
        }),
        10 => {
            abort_repair = true;
            ("repair aborted from the callback".into(), unclean.clone())
        }
        11 => ("unclean image (needs repair)".into(), unclean.clone()),
        12 => ("god byte flags changed".into(), {
            let mut i = if rng.bool() { clean.clone() } else { unclean.clone() };
            i[9] = rng.next() as u8 & 7;
            i
        }),
        _ => ("version byte changed".into(), {
            let mut i = clean.clone();
            i[64] = *rng.pick(&[0u8, 1, 2, 4, 255]);
            i[192] = i[64];
            i
        }),
    };
    let be = MonBackend::from_image(img);
    be.lock().name = name.clone();
    let r = open_and_use(&cfg, &be, abort_repair);
    let calls = be.lock().calls;
    let outcome = match &r {
        Ok(s) => s.clone(),
        Err(s) => s.clone(),
    };
    let mut violation = finish(&be, &format!("open of an image with {name} ({outcome})"));
    if violation.is_none() {
        if let Err(p) = r {
            // a panic is not what this property forbids, but a backend left unclosed would be
            let _ = p;
        }
    }
    if violation.is_none() && be.lock().counts.close != 1 {
        violation = Some(format!("{name}: close count {}", be.lock().counts.close));
    }
    Out {
        class: "failing-open",
        detail: format!("{name}: {outcome}"),
        calls,
        violation,
        sig: mix(kind, crate::rng::hash_bytes(0, outcome.as_bytes())),
    }
}

/// inject a failure at backend call k of an open + small use + drop
fn faulted_open_case(seed: u64, case: u64) -> Out {
    let mut rng = Rng::for_case(seed, "C20fault", case);
    let (cfg, clean, unclean) = match base_images(seed, case % 24) {
        Ok(x) => x,
        Err(e) => {
            return Out { class: "faulted-open", detail: "base".into(), calls: 0, violation: Some(e), sig: 0 };
        }
    };
    let img = if rng.bool() { clean } else { unclean };
    // count calls of a fault-free run
    let probe = MonBackend::from_image(img.clone());
    let _ = open_and_use(&cfg, &probe, false);
    let total = probe.lock().calls.max(1);
    let k = rng.below(total);
    let mask = *rng.pick(&[K_ANY, K_ANY, K_READ, K_WRITE, K_SYNC, K_SETLEN, K_LEN]);
    let permanent = rng.bool();
    let be = MonBackend::from_image(img);
    be.lock().name = format!("fault@{k}");
    be.set_fault(Fault::new(k, mask, permanent));
    let r = open_and_use(&cfg, &be, false);
    let outcome = match &r {
        Ok(s) | Err(s) => s.clone(),
    };
    let fired = be.lock().fault.fired;
    let violation = finish(
        &be,
        &format!(
            "open/use/drop with {} failure of {} call #{k} ({outcome})",
            if permanent { "permanent" } else { "one-shot" },
            kind_name(mask)
        ),
    );
    Out {
        class: "faulted-open",
        detail: format!("fault {} #{k} permanent={permanent} fired={fired}: {outcome}", kind_name(mask)),
        calls: be.lock().calls,
        violation,
        sig: mix(k, u64::from(mask) << 1 | u64::from(permanent)),
    }
}

/// handles dropped in unusual orders, from several threads
fn lifecycle_case(seed: u64, case: u64) -> Out {
    let mut rng = Rng::for_case(seed, "C20life", case);
    let mut cfg = Cfg {
        page_size: 512,
        region_pages: Some(64),
        cache: *rng.pick(&[0usize, 4096, 1 << 20]),
    };
    let be = MonBackend::new();
    be.set_sync_hook(crate::fmt::sync_hook(false));
    let scenario = case % 8;
    if scenario == 6 || scenario == 7 {
        cfg.cache = 0;
    }
    let name = [
        "database dropped while a write transaction is live on another thread",
        "write transaction dropped after the database",
        "readers and iterators outlive the database",
        "open/close cycles",
        "check_integrity / compact then drop",
        "read-only database over clean and unclean files",
        "a reader thread keeps reading while the database is dropped",
        "a reader thread is inside a slow backend read while a commit fails and the database is dropped",
    ][scenario as usize];
    be.lock().name = name.into();
    // in a third of the cases the backend's close() itself reports an error: it must still be the
    // last call the backend sees, and the only close
    let failing_close = scenario != 3 && scenario != 5 && scenario != 6 && scenario != 7 && rng.chance(1, 3);
    let r = guarded(|| -> Result<String, String> {
        let db = cfg.builder().create_with_backend(be.clone()).map_err(|e| e.to_string())?;
        be.lock().fail_close = failing_close;
        let fill = |db: &Database, n: u64, rng: &mut Rng| -> Result<(), String> {
            let txn = db.begin_write().map_err(|e| e.to_string())?;
            {
                let mut t = txn.open_table(T).map_err(|e| e.to_string())?;
                for _ in 0..n {
                    let l = rng.usize(700);
                    t.insert(rng.below(60), rng.bytes(l).as_slice()).map_err(|e| e.to_string())?;
                }
            }
            txn.commit().map_err(|e| e.to_string())
        };
        fill(&db, 30, &mut rng)?;
        match scenario {
            0 => {
                let txn = db.begin_write().map_err(|e| e.to_string())?;
                let end = rng.below(3);
                let h = std::thread::spawn(move || -> Result<(), String> {
                    {
                        let mut t = txn.open_table(T).map_err(|e| e.to_string())?;
                        for i in 0..40u64 {
                            t.insert(1000 + i, [9u8; 100].as_slice()).map_err(|e| e.to_string())?;
                            std::thread::yield_now();
                        }
                    }
                    match end {
                        0 => txn.commit().map_err(|e| e.to_string()),
                        1 => txn.abort().map_err(|e| e.to_string()),
                        _ => {
                            drop(txn);
                            Ok(())
                        }
                    }
                });
                std::thread::yield_now();
                drop(db);
                h.join().map_err(|_| "writer thread panicked".to_string())??;
                Ok(format!("writer ended with {}", ["commit", "abort", "drop"][end as usize]))
            }
            1 => {
                let txn = db.begin_write().map_err(|e| e.to_string())?;
                {
                    let mut t = txn.open_table(T).map_err(|e| e.to_string())?;
                    t.insert(5, [5u8; 900].as_slice()).map_err(|e| e.to_string())?;
                }
                drop(db);
                if be.lock().counts.close != 0 {
                    return Err("close() was called while a write transaction was still live".into());
                }
                {
                    let mut t = txn.open_table(T).map_err(|e| e.to_string())?;
                    t.insert(6, [6u8; 900].as_slice()).map_err(|e| e.to_string())?;
                }
                if rng.bool() {
                    txn.commit().map_err(|e| e.to_string())?;
                } else {
                    drop(txn);
                }
                Ok("transaction outlived the database".into())
            }
            2 => {
                let rt = db.begin_read().map_err(|e| e.to_string())?;
                let t = rt.open_table(T).map_err(|e| e.to_string())?;
                let mut it = t.range(..).map_err(|e| e.to_string())?;
                let _ = it.next();
                let owned = t.get_owned(&3).map_err(|e| e.to_string())?;
                fill(&db, 10, &mut rng)?;
                drop(db);
                // whatever these return, they must not reach the closed backend
                let mut errs = 0;
                for _ in 0..50 {
                    match it.next() {
                        Some(Err(_)) => errs += 1,
                        Some(Ok(_)) => {}
                        None => break,
                    }
                }
                let r2 = t.get(&1);
                let r3 = rt.open_table(T).map(|_| ());
                let _ = owned.as_ref().map(|g| g.value().len());
                Ok(format!("iterator errors after close: {errs}; get: {}; open_table: {}", r2.is_ok(), r3.is_ok()))
            }
            3 => {
                drop(db);
                let mut opens = 0;
                let mut cur = be.clone();
                for _ in 0..4 {
                    if cur.lock().counts.close != 1 {
                        return Err("close count after a clean drop is not 1".into());
                    }
                    if let Some(v) = cur.lock().violations.first() {
                        return Err(v.clone());
                    }
                    let nb = MonBackend::from_image(cur.image());
                    nb.set_sync_hook(crate::fmt::sync_hook(false));
                    let db = cfg.builder().create_with_backend(nb.clone()).map_err(|e| e.to_string())?;
                    fill(&db, 8, &mut rng)?;
                    drop(db);
                    cur = nb;
                    opens += 1;
                }
                // hand the last backend's verdict to the common check
                {
                    let last = cur.lock();
                    let mut first = be.lock();
                    first.violations.extend(last.violations.iter().cloned());
                    first.counts.close = last.counts.close;
                }
                Ok(format!("{opens} reopen cycles"))
            }
            4 => {
                let mut db = db;
                let a = db.check_integrity().map_err(|e| e.to_string())?;
                fill(&db, 20, &mut rng)?;
                let b = db.compact().map_err(|e| e.to_string())?;
                drop(db);
                Ok(format!("check_integrity {a}, compact {b}"))
            }
            6 => {
                // cache size 0 so that every get() goes to the backend
                let rt = db.begin_read().map_err(|e| e.to_string())?;
                let stop = std::sync::Arc::new(std::sync::atomic::AtomicBool::new(false));
                let s2 = stop.clone();
                let started = std::sync::Arc::new(std::sync::atomic::AtomicBool::new(false));
                let st2 = started.clone();
                let h = std::thread::spawn(move || -> Result<u64, String> {
                    let t = rt.open_table(T).map_err(|e| e.to_string())?;
                    st2.store(true, std::sync::atomic::Ordering::SeqCst);
                    let mut n = 0u64;
                    while !s2.load(std::sync::atomic::Ordering::Relaxed) {
                        let _ = t.get(&(n % 60)).map(|g| g.map(|v| v.value().len()));
                        n += 1;
                    }
                    Ok(n)
                });
                while !started.load(std::sync::atomic::Ordering::SeqCst) && !h.is_finished() {
                    std::thread::yield_now();
                }
                std::thread::sleep(std::time::Duration::from_micros(300 + rng.below(1500)));
                drop(db);
                std::thread::sleep(std::time::Duration::from_micros(500));
                stop.store(true, std::sync::atomic::Ordering::Relaxed);
                let n = h.join().map_err(|_| "reader thread panicked".to_string())??;
                Ok(format!("{n} reads raced the drop"))
            }
            7 => {
                // cache size 0 and a backend whose reads take 0.2-1.2 ms: the reader thread is inside
                // a backend call almost all the time. A commit on this thread gets an injected
                // failure (the I/O failure is latched), then the database is dropped: close() must
                // still wait for the read that was made before.
                let rt = db.begin_read().map_err(|e| e.to_string())?;
                let stop = std::sync::Arc::new(std::sync::atomic::AtomicBool::new(false));
                let s2 = stop.clone();
                let started = std::sync::Arc::new(std::sync::atomic::AtomicBool::new(false));
                let st2 = started.clone();
                let h = std::thread::spawn(move || -> Result<u64, String> {
                    let t = rt.open_table(T).map_err(|e| e.to_string())?;
                    st2.store(true, std::sync::atomic::Ordering::SeqCst);
                    let mut n = 0u64;
                    while !s2.load(std::sync::atomic::Ordering::Relaxed) {
                        let _ = t.get(&(n % 60)).map(|g| g.map(|v| v.value().len()));
                        n += 1;
                    }
                    Ok(n)
                });
                while !started.load(std::sync::atomic::Ordering::SeqCst) && !h.is_finished() {
                    std::thread::yield_now();
                }
                be.set_slow_reads(200 + rng.below(1000));
                std::thread::sleep(std::time::Duration::from_micros(300 + rng.below(1500)));
                let mask = *rng.pick(&[K_SYNC, K_WRITE, K_WRITE | K_SYNC | K_SETLEN]);
                let permanent = rng.bool();
                be.set_fault(Fault::new(0, mask, permanent));
                let failed = fill(&db, 5, &mut rng).is_err();
                drop(db);
                std::thread::sleep(std::time::Duration::from_micros(500));
                stop.store(true, std::sync::atomic::Ordering::Relaxed);
                be.set_slow_reads(0);
                let n = h.join().map_err(|_| "reader thread panicked".to_string())??;
                Ok(format!("{n} slow reads raced a {} commit and the drop", if failed { "failed" } else { "successful" }))
            }
            _ => {
                let unclean = be.image();
                drop(db);
                let clean = be.image();
                // clean file: read-only open must only read
                let ro = MonBackend::from_image(clean);
                ro.lock().read_only_expected = true;
                ro.lock().name = "read-only/clean".into();
                let rdb = cfg
                    .builder()
                    .verif_open_read_only_with_backend(ro.clone())
                    .map_err(|e| format!("read-only open of a clean file failed: {e}"))?;
                let rt = rdb.begin_read().map_err(|e| e.to_string())?;
                let t = rt.open_table(T).map_err(|e| e.to_string())?;
                let mut n = 0;
                for e in t.iter().map_err(|e| e.to_string())? {
                    e.map_err(|e| e.to_string())?;
                    n += 1;
                }
                drop(t);
                drop(rt);
                drop(rdb);
                if let Some(v) = finish(&ro, "read-only database over a clean file") {
                    return Err(v);
                }
                // unclean file: must be refused without any mutation
                let ro2 = MonBackend::from_image(unclean);
                ro2.lock().read_only_expected = true;
                ro2.lock().name = "read-only/unclean".into();
                let r = cfg.builder().verif_open_read_only_with_backend(ro2.clone());
                let refused = r.is_err();
                drop(r);
                if let Some(v) = finish(&ro2, "read-only database over an unclean file") {
                    return Err(v);
                }
                Ok(format!("read-only: {n} rows read from the clean file; unclean file refused={refused}"))
            }
        }
    });
    let (detail, mut violation) = match r {
        Err(p) => (format!("panic: {}", p.short()), Some(format!("{name}: {}", p.short()))),
        Ok(Err(e)) => (e.clone(), Some(format!("{name}: {e}"))),
        Ok(Ok(s)) => (s, None),
    };
    if violation.is_none() {
        violation = finish(&be, name);
    }
    Out {
        class: "life-cycle",
        detail: format!("{name}{}: {detail}", if failing_close { " [close() reports an error]" } else { "" }),
        calls: be.lock().calls,
        violation,
        sig: mix(scenario * 2 + u64::from(failing_close), crate::rng::hash_bytes(case, detail.as_bytes())),
    }
}

fn history_case(rep: &Report, case: u64) -> Out {
    match history(rep.seed, "C20hist", case, Opts::default(), false, 14) {
        Err(e) => Out { class: "history", detail: e.clone(), calls: 0, violation: Some(e), sig: 0 },
        Ok(mut h) => {
            h.world.close();
            let mut violation = h.world.be_violations.first().cloned();
            if violation.is_none() {
                violation = finish(&h.world.be, "random history").filter(|v| !v.contains("close() was called 0"));
            }
            if violation.is_none() {
                if let Some(Fail::Oracle(s)) = &h.api_error {
                    if s.contains("backend") {
                        violation = Some(s.clone());
                    }
                }
            }
            let st = h.world.be.lock();
            Out {
                class: "history",
                detail: format!("history of {} steps, {} backend calls, {} cow-guard evaluations", h.steps, st.calls, st.protect_evals),
                calls: st.calls,
                violation,
                sig: mix(case, st.calls),
            }
        }
    }
}

pub fn run(rep: &Report) {
    rep.set_rule(
        "case = one scenario on a monitoring backend that asserts online: every read/write within the current length, no write into a page reachable from the last durable commit (decoded independently at every sync), no set_len below such a page, no call after close(), close() exactly once per backend, no write/set_len/sync_data from a read-only database. Scenario classes: failing opens over 14 kinds of damaged or unclean images (bad magic, short file with intact magic, truncated/extended file, changed geometry fields, both slots corrupt, repair aborted), open/use/drop with the k-th backend call failing (one-shot or permanent, by call kind), life-cycle orders (database dropped while a writer is live on another thread, writer outliving the database, readers/iterators outliving it, a reader thread racing the drop, a reader inside a slow backend read while a commit fails and the database is dropped (the monitor counts its own in-flight reads: close() may not overlap one), reopen cycles, check_integrity/compact, read-only opens over clean and unclean files), and random histories. evaluations = scenarios; distinct_nontrivial = distinct (scenario class, outcome) signatures with at least one backend call",
    );
    rep.assume("calls are serialized by the monitor's mutex: a call counts as 'after close' if it acquires the monitor after close() did");
    let n = match rep.tier {
        Tier::Quick => 90_000u64,
        Tier::Thorough => 600_000u64,
    };
    let classes: std::sync::Mutex<BTreeMap<String, u64>> = std::sync::Mutex::new(BTreeMap::new());
    run_cases(
        rep,
        n,
        |case| {
            let replay = json!({"check": "C20", "seed": rep.seed, "case": case, "tier": rep.tier.name()});
            let out = match case % 4 {
                0 => failing_open_case(rep.seed, case / 4),
                1 => faulted_open_case(rep.seed, case / 4),
                2 => lifecycle_case(rep.seed, case / 4),
                _ => history_case(rep, case / 4),
            };
            rep.eval(1);
            rep.count(&format!("scenarios.{}", out.class), 1);
            rep.count("backend_calls_monitored", out.calls);
            if out.class == "failing-open" || out.class == "life-cycle" {
                let key = short_sig(out.detail.split(':').next().unwrap_or(""));
                *classes.lock().unwrap().entry(key).or_insert(0) += 1;
            }
            if out.calls > 0 {
                rep.distinct(out.sig);
            }
            if let Some(v) = out.violation {
                rep.violation(
                    format!("{}:{}", out.class, short_sig(&v)),
                    format!("case {case}: {v}"),
                    replay,
                );
            } else if rep.want_sample() {
                rep.sample(json!({"case": case, "class": out.class, "scenario": out.detail, "backend_calls": out.calls}));
            }
        },
        |case, p| {
            rep.violation(
                format!("panic:{}", p.location),
                format!("case {case}: {}", p.short()),
                json!({"check": "C20", "seed": rep.seed, "case": case, "tier": rep.tier.name()}),
            );
        },
    );
    rep.extra("scenario_kinds_run", json!(classes.into_inner().unwrap()));
}
