//! C03 -- commits take effect atomically and in one serial order, whichever threads the calls come
//! from. Controlled schedules (M5 script over the pause points of hook H5), jittered stress, and
//! the linear history checker M6.

use crate::backend::MonBackend;
use crate::checks::c01::short_sig;
use crate::report::{Report, Tier, guarded, run_cases};
use crate::rng::{Rng, mix};
use crate::sched::*;
use crate::world::Cfg;
use redb::{Database, Durability, ReadTransaction, ReadableDatabase, ReadableTable, Savepoint, TableDefinition, WriteTransaction};
use serde_json::json;
use std::collections::{BTreeMap, BTreeSet};
use std::sync::atomic::{AtomicBool, AtomicI64, AtomicU64, Ordering};
use std::sync::{Arc, Mutex};
use std::time::{Duration, Instant};

pub const SX: TableDefinition<u64, &[u8]> = TableDefinition::new("sx");
pub const SY: TableDefinition<u64, &[u8]> = TableDefinition::new("sy");
pub const JUNK: TableDefinition<u64, &[u8]> = TableDefinition::new("junk");
pub const NKEYS: u64 = 10;
pub const ABORT_MARK: u64 = 0xDEAD_0000_0000;

pub fn enc(k: u64, key: u64) -> Vec<u8> {
    let mut v = k.to_le_bytes().to_vec();
    let pad = (mix(k, key) % 260) as usize;
    v.extend(std::iter::repeat(k as u8).take(pad));
    v
}

pub fn dec(v: &[u8]) -> Option<u64> {
    if v.len() < 8 {
        return None;
    }
    let k = u64::from_le_bytes(v[..8].try_into().unwrap());
    if v[8..].iter().all(|b| *b == k as u8) {
        Some(k)
    } else {
        None
    }
}

/// write commit number `k` into both tables (and churn some pages) -- does not commit
pub fn write_seq(txn: &WriteTransaction, k: u64, churn: u64) -> Result<(), String> {
    {
        let mut x = txn.open_table(SX).map_err(|e| e.to_string())?;
        for key in 0..NKEYS {
            x.insert(key, enc(k, key).as_slice()).map_err(|e| e.to_string())?;
        }
    }
    {
        let mut j = txn.open_table(JUNK).map_err(|e| e.to_string())?;
        for i in 0..churn {
            let key = mix(k, i) % 40;
            if i % 3 == 0 {
                j.remove(key).map_err(|e| e.to_string())?;
            } else {
                let l = (mix(k, i * 7) % 900) as usize;
                j.insert(key, vec![i as u8; l].as_slice()).map_err(|e| e.to_string())?;
            }
        }
    }
    {
        let mut y = txn.open_table(SY).map_err(|e| e.to_string())?;
        for key in 0..NKEYS {
            y.insert(key, enc(k, key).as_slice()).map_err(|e| e.to_string())?;
        }
    }
    Ok(())
}

/// read both tables in full: every value must carry the same commit number
pub fn read_seq_txn(rt: &ReadTransaction) -> Result<u64, String> {
    let mut seen: Option<u64> = None;
    for def in [SX, SY] {
        let t = match rt.open_table(def) {
            Ok(t) => t,
            Err(redb::TableError::TableDoesNotExist(_)) => {
                if seen.is_some() {
                    return Err("one of the two tables written together exists, the other does not".into());
                }
                continue;
            }
            Err(e) => return Err(format!("open_table: {e}")),
        };
        let mut n = 0;
        for e in t.iter().map_err(|e| e.to_string())? {
            let (key, v) = e.map_err(|e| e.to_string())?;
            let k = dec(v.value()).ok_or_else(|| format!("value of key {} is malformed", key.value()))?;
            if v.value() != enc(k, key.value()).as_slice() {
                return Err(format!("value of key {} is not what commit {k} wrote", key.value()));
            }
            match seen {
                None => seen = Some(k),
                Some(s) if s != k => {
                    return Err(format!(
                        "a reader observed parts of two commits: commit {s} and commit {k} (key {})",
                        key.value()
                    ));
                }
                _ => {}
            }
            n += 1;
        }
        if n != NKEYS {
            return Err(format!("a reader found {n} of {NKEYS} entries of a table all of whose entries are written by every commit"));
        }
    }
    Ok(seen.unwrap_or(0))
}

pub fn read_seq(db: &Database) -> Result<u64, String> {
    let rt = db.begin_read().map_err(|e| format!("begin_read: {e}"))?;
    read_seq_txn(&rt)
}

// ---------------------------------------------------------------------------------------------
// scripted scenarios

#[derive(Clone, Copy, Debug, PartialEq, Eq)]
enum Victim {
    CommitDurable,
    Commit2pc,
    CommitQuickRepair,
    CommitNonDurable,
    Abort,
    DropWriter,
    BeginRead,
    DropSavepoint,
    DropDatabase,
    DropDatabaseWithLiveWriter,
    BeginWrite,
    SavepointThenCommit,
}

const VICTIMS: [Victim; 12] = [
    Victim::CommitDurable,
    Victim::Commit2pc,
    Victim::CommitQuickRepair,
    Victim::CommitNonDurable,
    Victim::Abort,
    Victim::DropWriter,
    Victim::BeginRead,
    Victim::DropSavepoint,
    Victim::DropDatabase,
    Victim::DropDatabaseWithLiveWriter,
    Victim::BeginWrite,
    Victim::SavepointThenCommit,
];

#[derive(Clone, Copy, Debug, PartialEq, Eq)]
enum Intruder {
    ReadAll,
    DropOldReader,
    DropSavepoint,
    WriteCommit,
    TwoReads,
    DropDatabase,
    /// begin_read while the victim is parked and keep the reader across the victim's completion
    /// and two later commits: its snapshot must not change
    HoldReader,
    /// three commits in a row, each rewriting everything: what the first one frees is reused
    ThreeCommits,
}

const INTRUDERS: [Intruder; 8] = [
    Intruder::ReadAll,
    Intruder::DropOldReader,
    Intruder::DropSavepoint,
    Intruder::WriteCommit,
    Intruder::TwoReads,
    Intruder::DropDatabase,
    Intruder::HoldReader,
    Intruder::ThreeCommits,
];

struct Shared {
    db: Mutex<Option<Database>>,
    old_reader: Mutex<Option<ReadTransaction>>,
    old_reader_k: u64,
    savepoint: Mutex<Option<Savepoint>>,
    victim_sp: Mutex<Option<Savepoint>>,
    k: AtomicU64,
    held_writer: Mutex<Option<WriteTransaction>>,
    held_reader: Mutex<Option<(ReadTransaction, u64)>>,
}

fn setup(state: u64, be: &MonBackend, cfg: &Cfg) -> Result<Shared, String> {
    let db = cfg.builder().create_with_backend(be.clone()).map_err(|e| e.to_string())?;
    let mut k = 0u64;
    let commit = |db: &Database, k: &mut u64, durable: bool| -> Result<(), String> {
        *k += 1;
        let mut txn = db.begin_write().map_err(|e| e.to_string())?;
        if !durable {
            txn.set_durability(Durability::None).map_err(|e| e.to_string())?;
        }
        write_seq(&txn, *k, 6)?;
        txn.commit().map_err(|e| e.to_string())
    };
    commit(&db, &mut k, true)?;
    // an ephemeral savepoint for the savepoint-dropping roles (two: one for a victim, one for an intruder)
    let (sp_a, sp_b) = {
        let txn = db.begin_write().map_err(|e| e.to_string())?;
        let a = txn.ephemeral_savepoint().map_err(|e| e.to_string())?;
        let b = txn.ephemeral_savepoint().map_err(|e| e.to_string())?;
        txn.abort().map_err(|e| e.to_string())?;
        (a, b)
    };
    commit(&db, &mut k, true)?;
    let old = db.begin_read().map_err(|e| e.to_string())?;
    let old_k = k;
    let mut old = Some(old);
    let (mut sp_a, mut sp_b) = (Some(sp_a), Some(sp_b));
    match state {
        0 => {}
        3 => {
            // nothing pins old pages: the post-commit epilogue has work to do
            commit(&db, &mut k, true)?;
            old = None;
            sp_a = None;
            sp_b = None;
        }
        1 => {
            for _ in 0..3 {
                commit(&db, &mut k, true)?;
            }
        }
        _ => {
            commit(&db, &mut k, true)?;
            commit(&db, &mut k, false)?;
            commit(&db, &mut k, false)?;
        }
    }
    Ok(Shared {
        db: Mutex::new(Some(db)),
        old_reader: Mutex::new(old),
        old_reader_k: old_k,
        savepoint: Mutex::new(sp_a),
        victim_sp: Mutex::new(sp_b),
        k: AtomicU64::new(k),
        held_writer: Mutex::new(None),
        held_reader: Mutex::new(None),
    })
}

/// what the victim does; returns the commit number it committed, if any
fn run_victim(v: Victim, sh: &Shared) -> Result<Option<u64>, String> {
    let with_db = |f: &dyn Fn(&Database) -> Result<Option<u64>, String>| -> Result<Option<u64>, String> {
        let g = sh.db.lock().unwrap();
        match g.as_ref() {
            Some(db) => f(db),
            None => Err("database already dropped".into()),
        }
    };
    // NOTE: the victim must not hold the db mutex while parked, or intruders needing the Database
    // would block on the harness' own lock. Take what is needed and release it first.
    let begin = || -> Result<WriteTransaction, String> {
        let dbp: *const Database = {
            let g = sh.db.lock().unwrap();
            g.as_ref().ok_or("database already dropped")? as *const Database
        };
        // SAFETY: `compatible()` never lets another role drop the Database while this one is
        // inside a `&Database` call (safe Rust could not express that schedule either)
        unsafe { (*dbp).begin_write().map_err(|e| e.to_string()) }
    };
    let _ = with_db;
    match v {
        Victim::CommitDurable | Victim::Commit2pc | Victim::CommitQuickRepair | Victim::CommitNonDurable => {
            let mut txn = begin()?;
            let k = sh.k.load(Ordering::SeqCst) + 1;
            match v {
                Victim::Commit2pc => txn.set_two_phase_commit(true),
                Victim::CommitQuickRepair => txn.set_quick_repair(true),
                Victim::CommitNonDurable => txn.set_durability(Durability::None).map_err(|e| e.to_string())?,
                _ => {}
            }
            write_seq(&txn, k, 8)?;
            txn.commit().map_err(|e| e.to_string())?;
            sh.k.store(k, Ordering::SeqCst);
            Ok(Some(k))
        }
        Victim::Abort => {
            let txn = begin()?;
            write_seq(&txn, ABORT_MARK, 8)?;
            txn.abort().map_err(|e| e.to_string())?;
            Ok(None)
        }
        Victim::DropWriter => {
            let txn = begin()?;
            write_seq(&txn, ABORT_MARK, 8)?;
            drop(txn);
            Ok(None)
        }
        Victim::BeginRead => {
            let rt = {
                // begin_read is the call under test: it must run without the harness lock held
                let dbp: *const Database = {
                    let g = sh.db.lock().unwrap();
                    g.as_ref().ok_or("database already dropped")? as *const Database
                };
                // SAFETY: the Database lives in `sh` until an intruder of kind DropDatabase takes
                // it, and that intruder is never combined with this victim
                unsafe { (*dbp).begin_read().map_err(|e| e.to_string())? }
            };
            let k = read_seq_txn(&rt)?;
            Ok(Some(k))
        }
        Victim::DropSavepoint => {
            let sp = sh.victim_sp.lock().unwrap().take();
            drop(sp);
            Ok(None)
        }
        Victim::DropDatabase => {
            let db = sh.db.lock().unwrap().take();
            drop(db);
            Ok(None)
        }
        Victim::DropDatabaseWithLiveWriter => {
            let txn = begin()?;
            let k = sh.k.load(Ordering::SeqCst) + 1;
            write_seq(&txn, k, 4)?;
            let db = sh.db.lock().unwrap().take();
            drop(db);
            // the close is deferred to the end of the live transaction
            txn.commit().map_err(|e| e.to_string())?;
            sh.k.store(k, Ordering::SeqCst);
            Ok(Some(k))
        }
        Victim::SavepointThenCommit => {
            let txn = begin()?;
            let sp = txn.ephemeral_savepoint().map_err(|e| e.to_string())?;
            let k = sh.k.load(Ordering::SeqCst) + 1;
            write_seq(&txn, k, 4)?;
            drop(sp);
            txn.commit().map_err(|e| e.to_string())?;
            sh.k.store(k, Ordering::SeqCst);
            Ok(Some(k))
        }
        Victim::BeginWrite => {
            let txn = begin()?;
            txn.abort().map_err(|e| e.to_string())?;
            Ok(None)
        }
    }
}

#[derive(Debug, Default)]
struct IntruderOut {
    reads: Vec<u64>,
    committed: Option<u64>,
    /// every commit number the intruder committed, in order
    committed_all: Vec<u64>,
}

fn run_intruder(i: Intruder, sh: &Shared) -> Result<IntruderOut, String> {
    let mut out = IntruderOut::default();
    let dbp: Option<*const Database> = sh.db.lock().unwrap().as_ref().map(|d| d as *const Database);
    // SAFETY: see run_victim -- the Database is only dropped by DropDatabase roles, and the
    // scenario table never combines two roles that would use it after that
    let db = || -> Result<&Database, String> { dbp.map(|p| unsafe { &*p }).ok_or_else(|| "database already dropped".to_string()) };
    match i {
        Intruder::ReadAll => out.reads.push(read_seq(db()?)?),
        Intruder::TwoReads => {
            let a = db()?.begin_read().map_err(|e| e.to_string())?;
            let b = db()?.begin_read().map_err(|e| e.to_string())?;
            out.reads.push(read_seq_txn(&a)?);
            out.reads.push(read_seq_txn(&b)?);
        }
        Intruder::HoldReader => {
            let rt = db()?.begin_read().map_err(|e| e.to_string())?;
            let k = read_seq_txn(&rt)?;
            out.reads.push(k);
            *sh.held_reader.lock().unwrap() = Some((rt, k));
        }
        Intruder::DropOldReader => {
            let r = sh.old_reader.lock().unwrap().take();
            if let Some(r) = r {
                let k = read_seq_txn(&r)?;
                if k != sh.old_reader_k {
                    return Err(format!("the old reader begun at commit {} now sees commit {k}", sh.old_reader_k));
                }
                drop(r);
            }
        }
        Intruder::DropSavepoint => {
            let s = sh.savepoint.lock().unwrap().take();
            drop(s);
        }
        Intruder::WriteCommit => {
            let txn = db()?.begin_write().map_err(|e| e.to_string())?;
            // the commit number is read inside the transaction, so serial order is self-evident
            let cur = {
                let t = txn.open_table(SX).map_err(|e| e.to_string())?;
                let v = t.get(0).map_err(|e| e.to_string())?.map(|g| dec(g.value())).flatten().unwrap_or(0);
                v
            };
            write_seq(&txn, cur + 1, 5)?;
            txn.commit().map_err(|e| e.to_string())?;
            out.committed = Some(cur + 1);
            out.committed_all.push(cur + 1);
        }
        Intruder::ThreeCommits => {
            for _ in 0..3 {
                let txn = db()?.begin_write().map_err(|e| e.to_string())?;
                let cur = {
                    let t = txn.open_table(SX).map_err(|e| e.to_string())?;
                    let v = t.get(0).map_err(|e| e.to_string())?.map(|g| dec(g.value())).flatten().unwrap_or(0);
                    v
                };
                write_seq(&txn, cur + 1, 14)?;
                txn.commit().map_err(|e| e.to_string())?;
                out.committed = Some(cur + 1);
                out.committed_all.push(cur + 1);
            }
        }
        Intruder::DropDatabase => {
            let d = sh.db.lock().unwrap().take();
            drop(d);
        }
    }
    Ok(out)
}

fn compatible(v: Victim, p: &str, i: Intruder) -> bool {
    if i == Intruder::DropDatabase && matches!(p, "write.slot_acquired" | "read.registered") {
        // the victim is inside a `&Database` call: the borrow checker rules this schedule out
        return false;
    }
    // roles that use the Database after another role dropped it are not meaningful schedules
    let v_drops = matches!(v, Victim::DropDatabase | Victim::DropDatabaseWithLiveWriter);
    let i_needs_db = matches!(i, Intruder::ReadAll | Intruder::TwoReads | Intruder::WriteCommit | Intruder::HoldReader | Intruder::ThreeCommits);
    if v_drops && (i_needs_db || i == Intruder::DropDatabase) {
        return false;
    }
    if i == Intruder::DropDatabase && matches!(v, Victim::BeginRead) {
        return false;
    }
    true
}

/// points inside the lifetime of the victim's write transaction: another writer must wait there
fn writer_live_at(v: Victim, p: &str) -> bool {
    let is_writer = matches!(
        v,
        Victim::CommitDurable
            | Victim::Commit2pc
            | Victim::CommitQuickRepair
            | Victim::CommitNonDurable
            | Victim::Abort
            | Victim::DropWriter
            | Victim::BeginWrite
            | Victim::SavepointThenCommit
    );
    is_writer && p != "txguard.write.after_end" && p != "(none)"
}

struct ScenOut {
    outcome: &'static str,
    violation: Option<String>,
    inconclusive: Option<String>,
}

fn scenario(v: Victim, point: &'static str, nth: u32, i: Intruder, state: u64, seed: u64) -> ScenOut {
    let cfg = Cfg { page_size: 512, region_pages: Some(64), cache: if seed % 2 == 0 { 0 } else { 1 << 20 } };
    let be = MonBackend::new();
    if crate::report::tiny() == 0 {
        be.set_sync_hook(crate::fmt::sync_hook(false));
    }
    let sh = match setup(state, &be, &cfg) {
        Ok(s) => Arc::new(s),
        Err(e) => return ScenOut { outcome: "setup-failed", violation: Some(format!("setup: {e}")), inconclusive: None },
    };
    let k_before = sh.k.load(Ordering::SeqCst);
    let ctl = Ctl::new();
    ctl.set_trap(Trap { role: 1, point, nth });
    let v_done = Arc::new(AtomicBool::new(false));
    let v_res: Arc<Mutex<Option<Result<Option<u64>, String>>>> = Arc::new(Mutex::new(None));
    let vt = {
        let (sh, ctl, v_done, v_res) = (sh.clone(), ctl.clone(), v_done.clone(), v_res.clone());
        std::thread::spawn(move || {
            enter(1, &ctl, seed);
            let r = guarded(|| run_victim(v, &sh));
            leave();
            *v_res.lock().unwrap() = Some(match r {
                Ok(r) => r,
                Err(p) => Err(format!("panic: {}", p.short())),
            });
            v_done.store(true, Ordering::SeqCst);
            ctl.cv.notify_all();
        })
    };
    let w = ctl.wait_parked(&|| v_done.load(Ordering::SeqCst), Duration::from_secs(20));
    let mut out = ScenOut { outcome: "n/a", violation: None, inconclusive: None };
    if w != WaitOutcome::Parked {
        ctl.release();
        let _ = vt.join();
        if w == WaitOutcome::Timeout {
            out.inconclusive = Some(format!("victim {v:?} neither reached {point} nor finished within 20 s"));
        }
        return out;
    }
    // the victim is parked inside its call: run the intruder's whole call
    let i_done = Arc::new(AtomicBool::new(false));
    let i_res: Arc<Mutex<Option<Result<IntruderOut, String>>>> = Arc::new(Mutex::new(None));
    let it = {
        let (sh, ctl, i_done, i_res) = (sh.clone(), ctl.clone(), i_done.clone(), i_res.clone());
        std::thread::spawn(move || {
            enter(2, &ctl, seed);
            let r = guarded(|| run_intruder(i, &sh));
            leave();
            *i_res.lock().unwrap() = Some(match r {
                Ok(r) => r,
                Err(p) => Err(format!("panic: {}", p.short())),
            });
            i_done.store(true, Ordering::SeqCst);
        })
    };
    let t0 = Instant::now();
    while !i_done.load(Ordering::SeqCst) && t0.elapsed() < Duration::from_millis(150) {
        std::thread::sleep(Duration::from_micros(200));
    }
    let ran = i_done.load(Ordering::SeqCst);
    out.outcome = if ran { "ran" } else { "blocked" };
    if ran && matches!(i, Intruder::WriteCommit | Intruder::ThreeCommits) && writer_live_at(v, point) {
        out.violation = Some(format!(
            "a second write transaction began and committed while the first one was still live (victim {v:?} parked at {point})"
        ));
    }
    ctl.release();
    // both must finish now
    let t1 = Instant::now();
    let mut before = thread_cpu_ticks();
    loop {
        if v_done.load(Ordering::SeqCst) && i_done.load(Ordering::SeqCst) {
            break;
        }
        // under Miri the clock is virtual and there is no /proc: Miri reports real deadlocks itself
        if !cfg!(miri) && t1.elapsed() > Duration::from_secs(30) {
            std::thread::sleep(Duration::from_secs(3));
            let after = thread_cpu_ticks();
            if after.is_empty() || before.is_empty() {
                out.inconclusive = Some(format!("scenario {v:?}@{point} x {i:?} did not finish within the watchdog and per-thread CPU times are not available"));
                return out;
            }
            let progressed = after.iter().any(|(t, c)| before.get(t).map(|b| c > b).unwrap_or(false));
            if !progressed && !(v_done.load(Ordering::SeqCst) && i_done.load(Ordering::SeqCst)) {
                out.violation = Some(format!(
                    "deadlock: victim {v:?} (released from {point}) and intruder {i:?} both stopped making progress (no thread accrued CPU time in 3 s after a 30 s wait)"
                ));
            } else {
                out.inconclusive = Some(format!("scenario {v:?}@{point} x {i:?} did not finish within the watchdog, threads still consuming CPU"));
            }
            // cannot join: leave the threads behind
            return out;
        }
        before = thread_cpu_ticks();
        std::thread::sleep(Duration::from_micros(300));
    }
    let _ = vt.join();
    let _ = it.join();
    let vr = v_res.lock().unwrap().take().unwrap();
    let ir = i_res.lock().unwrap().take().unwrap();
    // a deferred-close writer finishes now
    if let Some(txn) = sh.held_writer.lock().unwrap().take() {
        if let Err(e) = txn.commit() {
            out.violation.get_or_insert(format!("the write transaction that outlived the Database failed to commit: {e}"));
        } else {
            sh.k.fetch_add(1, Ordering::SeqCst);
        }
    }
    let victim_k = match &vr {
        Ok(k) => *k,
        Err(e) => {
            if out.violation.is_none() && !e.contains("already dropped") && !e.contains("Database has been closed") {
                out.violation = Some(format!("victim {v:?} failed: {e}"));
            }
            None
        }
    };
    match &ir {
        Ok(io) => {
            let mut admissible: BTreeSet<u64> = BTreeSet::new();
            admissible.insert(k_before);
            if let Some(k) = victim_k {
                admissible.insert(k);
            }
            for k in &io.committed_all {
                admissible.insert(*k);
            }
            if v == Victim::BeginRead {
                // a reader parked inside begin_read() must end up with exactly one of the commits
                // that existed or were made meanwhile (read_seq_txn already checked consistency)
                if let Some(k) = victim_k {
                    if !admissible.contains(&k) && out.violation.is_none() {
                        out.violation = Some(format!("the reader parked at {point} finally observed commit {k}; only {admissible:?} were ever committed"));
                    }
                }
            }
            if let Some(k) = io.committed.filter(|_| i == Intruder::WriteCommit) {
                admissible.insert(k);
                // serial order: the intruder's commit number must directly follow what it read
                let expect = if ran { k_before + 1 } else { victim_k.filter(|_| v != Victim::BeginRead).unwrap_or(k_before) + 1 };
                if k != expect && out.violation.is_none() && !(v == Victim::BeginRead) {
                    out.violation = Some(format!(
                        "commits are not in one serial order: the intruder's transaction saw commit {} as its base, expected {}",
                        k - 1,
                        expect - 1
                    ));
                }
            }
            for r in &io.reads {
                if !admissible.contains(r) && out.violation.is_none() {
                    out.violation = Some(format!(
                        "a reader that ran while {v:?} was parked at {point} observed commit {r}; only {admissible:?} had been requested"
                    ));
                }
            }
            // while the victim is parked before its commit is published a reader cannot see it
        }
        Err(e) => {
            if out.violation.is_none() && !e.contains("already dropped") && !e.contains("Database has been closed") {
                out.violation = Some(format!("intruder {i:?} failed while {v:?} was parked at {point}: {e}"));
            }
        }
    }
    // final state: everything acknowledged is visible, in both tables
    let mut expect = k_before;
    if let Some(vk) = victim_k {
        if v != Victim::BeginRead {
            expect = expect.max(vk);
        }
    }
    if let Ok(io) = &ir {
        if let Some(ik) = io.committed {
            expect = expect.max(ik);
        }
    }
    let final_k = {
        let g = sh.db.lock().unwrap();
        g.as_ref().map(read_seq)
    };
    let was_dropped = final_k.is_none();
    if let Some(Ok(k)) = &final_k {
        if *k != expect && out.violation.is_none() {
            out.violation = Some(format!("after {v:?}@{point} x {i:?} a new reader sees commit {k}, the last acknowledged commit is {expect}"));
        }
    } else if let Some(Err(e)) = &final_k {
        if out.violation.is_none() {
            out.violation = Some(format!("after {v:?}@{point} x {i:?}: {e}"));
        }
    }
    // a reader begun during the park and held until now: two more commits recycle whatever the
    // victim's commit freed, then the reader must still see exactly what it saw
    if let Some((rt, k0)) = sh.held_reader.lock().unwrap().take() {
        let g = sh.db.lock().unwrap();
        if let (Some(db), None) = (g.as_ref(), &out.violation) {
            let mut k = expect;
            for _ in 0..2 {
                k += 1;
                let r = (|| -> Result<(), String> {
                    let txn = db.begin_write().map_err(|e| e.to_string())?;
                    write_seq(&txn, k, 12)?;
                    txn.commit().map_err(|e| e.to_string())
                })();
                if let Err(e) = r {
                    out.violation = Some(format!("commit after {v:?}@{point} x {i:?}: {e}"));
                    break;
                }
            }
            if out.violation.is_none() {
                match guarded(|| read_seq_txn(&rt)) {
                    Ok(Ok(k1)) if k1 == k0 => {}
                    Ok(Ok(k1)) => {
                        out.violation = Some(format!(
                            "a reader begun while {v:?} was parked at {point} saw commit {k0}; after the commit finished and two more followed it sees commit {k1}"
                        ))
                    }
                    Ok(Err(e)) => {
                        out.violation = Some(format!(
                            "a reader begun while {v:?} was parked at {point} (snapshot: commit {k0}) no longer reads its snapshot after the commit finished and two more followed: {e}"
                        ))
                    }
                    Err(p) => {
                        out.violation = Some(format!(
                            "a reader begun while {v:?} was parked at {point} (snapshot: commit {k0}) panicked reading its snapshot after later commits: {}",
                            p.short()
                        ))
                    }
                }
            }
        }
        drop(rt);
    }
    // ownership accounting once every pin is gone
    sh.old_reader.lock().unwrap().take();
    sh.savepoint.lock().unwrap().take();
    sh.victim_sp.lock().unwrap().take();
    {
        let g = sh.db.lock().unwrap();
        if let Some(db) = g.as_ref() {
            if out.violation.is_none() {
                if let Err(e) = crate::own::account(db, &[]) {
                    if !e.starts_with("machinery") {
                        out.violation = Some(format!("after {v:?}@{point} x {i:?}: {e}"));
                    }
                }
            }
        }
    }
    sh.db.lock().unwrap().take();
    {
        let st = be.lock();
        if out.violation.is_none() {
            if let Some(e) = st.sync_errors.first() {
                out.violation = Some(format!("format: {e}"));
            } else if let Some(e) = st.violations.first() {
                out.violation = Some(format!("backend: {e}"));
            } else if st.counts.close != 1 {
                out.violation = Some(format!("backend close() called {} times", st.counts.close));
            }
        }
    }
    if was_dropped && out.violation.is_none() {
        // the Database was closed by one of the roles: what it left behind must be the last
        // acknowledged commit (a clean close makes pending non-durable commits durable)
        let be2 = MonBackend::from_image(be.image());
        match cfg.builder().create_with_backend(be2) {
            Ok(db2) => match read_seq(&db2) {
                Ok(k) if k == expect => {}
                Ok(k) => out.violation = Some(format!("after {v:?}@{point} x {i:?} closed the database, reopening shows commit {k}, the last acknowledged commit is {expect}")),
                Err(e) => out.violation = Some(format!("after {v:?}@{point} x {i:?} closed the database, reopening: {e}")),
            },
            Err(e) => out.violation = Some(format!("after {v:?}@{point} x {i:?} closed the database it cannot be reopened: {e}")),
        }
    }
    out
}

/// "A reader registers an id no newer than the root it then reads", for every commit kind: a reader
/// is parked inside begin_read() (before or after registering), commits of kind `first` happen, the
/// reader finishes begin_read() and keeps its snapshot, commits of kind `later` rewrite everything
/// three times (so whatever was freed is reused), then the reader reads its snapshot again.
/// kinds: 0 durable 1PC, 1 non-durable, 2 durable 2PC, 3 quick-repair
fn late_root_scenario(point: &'static str, first: u64, later: u64, state: u64, seed: u64) -> ScenOut {
    let cfg = Cfg { page_size: 512, region_pages: Some(64), cache: if seed % 2 == 0 { 0 } else { 1 << 20 } };
    let be = MonBackend::new();
    if crate::report::tiny() == 0 {
        be.set_sync_hook(crate::fmt::sync_hook(false));
    }
    let mut out = ScenOut { outcome: "n/a", violation: None, inconclusive: None };
    let sh = match setup(state, &be, &cfg) {
        Ok(s) => Arc::new(s),
        Err(e) => {
            out.violation = Some(format!("setup: {e}"));
            return out;
        }
    };
    let kind_name = |k: u64| ["durable", "non-durable", "two-phase", "quick-repair"][k as usize % 4];
    let commit = |sh: &Shared, kind: u64| -> Result<u64, String> {
        let g = sh.db.lock().unwrap_or_else(|e| e.into_inner());
        let db = g.as_ref().ok_or("database already dropped")?;
        let mut txn = db.begin_write().map_err(|e| e.to_string())?;
        match kind % 4 {
            1 => txn.set_durability(Durability::None).map_err(|e| e.to_string())?,
            2 => txn.set_two_phase_commit(true),
            3 => txn.set_quick_repair(true),
            _ => {}
        }
        let k = sh.k.load(Ordering::SeqCst) + 1;
        write_seq(&txn, k, 14)?;
        txn.commit().map_err(|e| e.to_string())?;
        sh.k.store(k, Ordering::SeqCst);
        Ok(k)
    };
    let k_before = sh.k.load(Ordering::SeqCst);
    let ctl = Ctl::new();
    ctl.set_trap(Trap { role: 1, point, nth: 0 });
    let v_done = Arc::new(AtomicBool::new(false));
    let held: Arc<Mutex<Option<Result<(ReadTransaction, u64), String>>>> = Arc::new(Mutex::new(None));
    let vt = {
        let (sh, ctl, v_done, held) = (sh.clone(), ctl.clone(), v_done.clone(), held.clone());
        std::thread::spawn(move || {
            enter(1, &ctl, seed);
            let r = guarded(|| -> Result<(ReadTransaction, u64), String> {
                let dbp: *const Database = {
                    let g = sh.db.lock().unwrap_or_else(|e| e.into_inner());
                    g.as_ref().ok_or("database already dropped")? as *const Database
                };
                // SAFETY: nothing drops the Database in this scenario
                let rt = unsafe { (*dbp).begin_read().map_err(|e| e.to_string())? };
                let k = read_seq_txn(&rt)?;
                Ok((rt, k))
            });
            leave();
            *held.lock().unwrap_or_else(|e| e.into_inner()) = Some(match r {
                Ok(r) => r,
                Err(p) => Err(format!("panic: {}", p.short())),
            });
            v_done.store(true, Ordering::SeqCst);
            ctl.cv.notify_all();
        })
    };
    let w = ctl.wait_parked(&|| v_done.load(Ordering::SeqCst), Duration::from_secs(20));
    if w != WaitOutcome::Parked {
        ctl.release();
        let _ = vt.join();
        if w == WaitOutcome::Timeout {
            out.inconclusive = Some(format!("begin_read neither reached {point} nor finished within 20 s"));
        }
        return out;
    }
    out.outcome = "ran";
    let ctx = format!("reader parked at {point}, then a {} commit, then three {} commits", kind_name(first), kind_name(later));
    let mut committed = vec![k_before];
    match guarded(|| commit(&sh, first)) {
        Ok(Ok(k)) => committed.push(k),
        Ok(Err(e)) => out.violation = Some(format!("{ctx}: commit while the reader was parked failed: {e}")),
        Err(p) => out.violation = Some(format!("{ctx}: commit while the reader was parked panicked: {}", p.short())),
    }
    ctl.release();
    let _ = vt.join();
    let h = held.lock().unwrap_or_else(|e| e.into_inner()).take();
    let (rt, k0) = match h {
        Some(Ok(x)) => x,
        Some(Err(e)) => {
            out.violation.get_or_insert(format!("{ctx}: the reader's first read of its snapshot failed: {e}"));
            return out;
        }
        None => {
            out.inconclusive = Some("reader thread produced nothing".into());
            return out;
        }
    };
    if out.violation.is_none() && !committed.contains(&k0) {
        out.violation = Some(format!("{ctx}: the reader observed commit {k0}, only {committed:?} existed"));
    }
    for _ in 0..3 {
        if out.violation.is_some() {
            break;
        }
        match guarded(|| commit(&sh, later)) {
            Ok(Ok(_)) => {}
            Ok(Err(e)) => out.violation = Some(format!("{ctx}: a later commit failed while the reader held its snapshot: {e}")),
            Err(p) => out.violation = Some(format!("{ctx}: a later commit panicked while the reader held its snapshot (commit {k0}): {}", p.short())),
        }
    }
    if out.violation.is_none() {
        match guarded(|| read_seq_txn(&rt)) {
            Ok(Ok(k1)) if k1 == k0 => {}
            Ok(Ok(k1)) => out.violation = Some(format!("{ctx}: the reader saw commit {k0} and, after the later commits, commit {k1} in the same read transaction")),
            Ok(Err(e)) => out.violation = Some(format!("{ctx}: the reader (snapshot: commit {k0}) no longer reads its snapshot after the later commits: {e}")),
            Err(p) => out.violation = Some(format!("{ctx}: the reader (snapshot: commit {k0}) panicked reading its snapshot after the later commits: {}", p.short())),
        }
    }
    drop(rt);
    sh.old_reader.lock().unwrap_or_else(|e| e.into_inner()).take();
    sh.savepoint.lock().unwrap_or_else(|e| e.into_inner()).take();
    sh.victim_sp.lock().unwrap_or_else(|e| e.into_inner()).take();
    sh.db.lock().unwrap_or_else(|e| e.into_inner()).take();
    if out.violation.is_none() {
        let st = be.lock();
        if let Some(e) = st.sync_errors.first() {
            out.violation = Some(format!("{ctx}: format: {e}"));
        } else if let Some(e) = st.violations.first() {
            out.violation = Some(format!("{ctx}: backend: {e}"));
        }
    }
    out
}

/// the points a victim passes through (dry run, no trap)
fn points_of(v: Victim, state: u64) -> Vec<&'static str> {
    let cfg = Cfg { page_size: 512, region_pages: Some(64), cache: 1 << 20 };
    let be = MonBackend::new();
    let Ok(sh) = setup(state, &be, &cfg) else { return vec![] };
    let sh = Arc::new(sh);
    let ctl = Ctl::new();
    let h = {
        let (sh, ctl) = (sh.clone(), ctl.clone());
        std::thread::spawn(move || {
            enter(1, &ctl, 0);
            let _ = guarded(|| run_victim(v, &sh));
            leave();
        })
    };
    let _ = h.join();
    if let Some(t) = sh.held_writer.lock().unwrap().take() {
        let _ = t.abort();
    }
    let mut seen = vec![];
    for (r, p) in ctl.points_reached() {
        if r == 1 && !seen.contains(&p) {
            seen.push(p);
        }
    }
    seen
}

// ---------------------------------------------------------------------------------------------
// stress with jitter + M6 history check

struct StressOut {
    commits: u64,
    reads: u64,
    aborts: u64,
    savepoints: u64,
    violation: Option<String>,
}

fn stress(seed: u64, case: u64) -> StressOut {
    let mut rng = Rng::for_case(seed, "C03stress", case);
    let cfg = Cfg {
        page_size: 512,
        region_pages: Some(64),
        cache: *rng.pick(&[0usize, 4096, 1 << 20]),
    };
    let be = MonBackend::new();
    if crate::report::tiny() == 0 {
        be.set_sync_hook(crate::fmt::sync_hook(false));
    }
    let mut out = StressOut { commits: 0, reads: 0, aborts: 0, savepoints: 0, violation: None };
    let db = match cfg.builder().create_with_backend(be.clone()) {
        Ok(d) => Arc::new(d),
        Err(e) => {
            out.violation = Some(e.to_string());
            return out;
        }
    };
    {
        let txn = db.begin_write().unwrap();
        write_seq(&txn, 1, 4).unwrap();
        txn.commit().unwrap();
    }
    let ctl = Ctl::new();
    ctl.set_jitter(true);
    let tiny = crate::report::tiny() > 0;
    let n_writers = if tiny { 2 } else { rng.range(2, 5) };
    let n_readers = if tiny { 2 } else { rng.range(2, 6) };
    let per_writer = if tiny { 3 } else { rng.range(20, 120) };
    let acked = Arc::new(AtomicU64::new(1));
    let live_writers = Arc::new(AtomicI64::new(0));
    let stop = Arc::new(AtomicBool::new(false));
    let viol: Arc<Mutex<Option<String>>> = Arc::new(Mutex::new(None));
    let commits = Arc::new(AtomicU64::new(0));
    let aborts = Arc::new(AtomicU64::new(0));
    let reads = Arc::new(AtomicU64::new(0));
    let sps = Arc::new(AtomicU64::new(0));
    let sp_box: Arc<Mutex<Vec<Savepoint>>> = Arc::new(Mutex::new(vec![]));
    let committed_log: Arc<Mutex<Vec<u64>>> = Arc::new(Mutex::new(vec![]));
    std::thread::scope(|s| {
        for wi in 0..n_writers {
            let (db, ctl, acked, live, viol, commits, aborts, sps, sp_box, log) =
                (db.clone(), ctl.clone(), acked.clone(), live_writers.clone(), viol.clone(), commits.clone(), aborts.clone(), sps.clone(), sp_box.clone(), committed_log.clone());
            s.spawn(move || {
                enter(10 + wi as u32, &ctl, seed ^ case);
                let mut r = Rng::new(mix(seed ^ case, 100 + wi));
                for _ in 0..per_writer {
                    if viol.lock().unwrap().is_some() {
                        break;
                    }
                    let res = guarded(|| -> Result<(), String> {
                        let mut txn = db.begin_write().map_err(|e| e.to_string())?;
                        let l = live.fetch_add(1, Ordering::SeqCst) + 1;
                        if l > 1 {
                            return Err(format!("{l} write transactions are live at the same moment"));
                        }
                        if r.chance(1, 10) {
                            if let Ok(sp) = txn.ephemeral_savepoint() {
                                sp_box.lock().unwrap().push(sp);
                                sps.fetch_add(1, Ordering::Relaxed);
                            }
                        }
                        let cur = {
                            let t = txn.open_table(SX).map_err(|e| e.to_string())?;
                            let g = t.get(0).map_err(|e| e.to_string())?;
                            g.and_then(|g| dec(g.value())).unwrap_or(0)
                        };
                        let last_acked = acked.load(Ordering::SeqCst);
                        if cur < last_acked {
                            live.fetch_sub(1, Ordering::SeqCst);
                            return Err(format!("a write transaction begun after commit {last_acked} was acknowledged sees commit {cur}"));
                        }
                        let kind = r.below(10);
                        if kind == 0 {
                            write_seq(&txn, ABORT_MARK + cur, 3)?;
                            live.fetch_sub(1, Ordering::SeqCst);
                            txn.abort().map_err(|e| e.to_string())?;
                            aborts.fetch_add(1, Ordering::Relaxed);
                            return Ok(());
                        }
                        if kind == 1 {
                            write_seq(&txn, ABORT_MARK + cur, 3)?;
                            live.fetch_sub(1, Ordering::SeqCst);
                            drop(txn);
                            aborts.fetch_add(1, Ordering::Relaxed);
                            return Ok(());
                        }
                        match kind {
                            2 | 3 => txn.set_durability(Durability::None).map_err(|e| e.to_string())?,
                            4 => txn.set_two_phase_commit(true),
                            5 => txn.set_quick_repair(true),
                            _ => {}
                        }
                        write_seq(&txn, cur + 1, r.below(6))?;
                        live.fetch_sub(1, Ordering::SeqCst);
                        txn.commit().map_err(|e| e.to_string())?;
                        acked.fetch_max(cur + 1, Ordering::SeqCst);
                        log.lock().unwrap().push(cur + 1);
                        commits.fetch_add(1, Ordering::Relaxed);
                        Ok(())
                    });
                    let e = match res {
                        Ok(Ok(())) => None,
                        Ok(Err(e)) => Some(e),
                        Err(p) => Some(format!("panic: {}", p.short())),
                    };
                    if let Some(e) = e {
                        viol.lock().unwrap().get_or_insert(format!("writer {wi}: {e}"));
                        break;
                    }
                }
                leave();
            });
        }
        for ri in 0..n_readers {
            let (db, ctl, acked, viol, reads, stop) = (db.clone(), ctl.clone(), acked.clone(), viol.clone(), reads.clone(), stop.clone());
            s.spawn(move || {
                enter(50 + ri as u32, &ctl, seed ^ case);
                let mut last = 0u64;
                while !stop.load(Ordering::SeqCst) {
                    let floor = acked.load(Ordering::SeqCst);
                    let hold = floor % 4 == (ri % 4);
                    let res = guarded(|| -> Result<u64, String> {
                        let rt = db.begin_read().map_err(|e| format!("begin_read: {e}"))?;
                        let k = read_seq_txn(&rt)?;
                        if hold {
                            // keep the snapshot while writers commit, then read it again
                            std::thread::sleep(Duration::from_micros(400 + 150 * ri));
                            let k2 = read_seq_txn(&rt).map_err(|e| format!("second read of one snapshot (first saw commit {k}): {e}"))?;
                            if k2 != k {
                                return Err(format!("one read transaction saw commit {k} and later commit {k2}"));
                            }
                        }
                        Ok(k)
                    });
                    match res {
                        Ok(Ok(k)) => {
                            reads.fetch_add(1, Ordering::Relaxed);
                            if k >= ABORT_MARK {
                                viol.lock().unwrap().get_or_insert(format!("reader {ri} observed the value of an aborted transaction"));
                                break;
                            }
                            if k < last {
                                viol.lock().unwrap().get_or_insert(format!("reader {ri} saw the committed state move backwards: commit {last} then commit {k}"));
                                break;
                            }
                            if k < floor {
                                viol.lock().unwrap().get_or_insert(format!("reader {ri}: begin_read called after commit {floor} was acknowledged observed commit {k}"));
                                break;
                            }
                            last = k;
                        }
                        Ok(Err(e)) => {
                            viol.lock().unwrap().get_or_insert(format!("reader {ri}: {e}"));
                            break;
                        }
                        Err(p) => {
                            viol.lock().unwrap().get_or_insert(format!("reader {ri}: panic: {}", p.short()));
                            break;
                        }
                    }
                }
                leave();
            });
        }
        // lock churn: threads that only begin and drop read transactions keep the tracker's mutex
        // contended, which stretches every window that lies between two acquisitions of it
        for ci in 0..(if tiny { 0 } else { 3u32 }) {
            let (db, ctl, stop, viol) = (db.clone(), ctl.clone(), stop.clone(), viol.clone());
            s.spawn(move || {
                enter(80 + ci, &ctl, seed ^ case);
                while !stop.load(Ordering::SeqCst) {
                    match guarded(|| db.begin_read().map(drop)) {
                        Ok(Ok(())) => {}
                        Ok(Err(e)) => {
                            viol.lock().unwrap().get_or_insert(format!("begin_read: {e}"));
                            break;
                        }
                        Err(p) => {
                            viol.lock().unwrap().get_or_insert(format!("begin_read panicked: {}", p.short()));
                            break;
                        }
                    }
                }
                leave();
            });
        }
        // savepoint dropper
        {
            let (ctl, sp_box, stop) = (ctl.clone(), sp_box.clone(), stop.clone());
            s.spawn(move || {
                enter(90, &ctl, seed ^ case);
                while !stop.load(Ordering::SeqCst) {
                    let sp = sp_box.lock().unwrap().pop();
                    drop(sp);
                    std::thread::sleep(Duration::from_micros(300));
                }
                sp_box.lock().unwrap().clear();
                leave();
            });
        }
        // wait for the writers: they are the first n_writers threads; poll the commit counters
        let t0 = Instant::now();
        loop {
            let done = commits.load(Ordering::Relaxed) + aborts.load(Ordering::Relaxed) >= n_writers * per_writer;
            if done || viol.lock().unwrap().is_some() || t0.elapsed() > Duration::from_secs(120) {
                break;
            }
            std::thread::sleep(Duration::from_millis(2));
        }
        stop.store(true, Ordering::SeqCst);
    });
    out.commits = commits.load(Ordering::Relaxed);
    out.aborts = aborts.load(Ordering::Relaxed);
    out.reads = reads.load(Ordering::Relaxed);
    out.savepoints = sps.load(Ordering::Relaxed);
    out.violation = viol.lock().unwrap().take();
    // serial order: the committed numbers are exactly 2..=n without gaps or repeats
    if out.violation.is_none() {
        let mut log = committed_log.lock().unwrap().clone();
        log.sort_unstable();
        for (i, k) in log.iter().enumerate() {
            if *k != i as u64 + 2 {
                out.violation = Some(format!("commits are not one serial order: commit numbers {:?}...", &log[..log.len().min(12)]));
                break;
            }
        }
        if out.violation.is_none() {
            match read_seq(&db) {
                Ok(k) if k == log.last().copied().unwrap_or(1) => {}
                Ok(k) => out.violation = Some(format!("final state is commit {k}, the last acknowledged is {:?}", log.last())),
                Err(e) => out.violation = Some(e),
            }
        }
    }
    if out.violation.is_none() {
        if let Err(e) = crate::own::account(&db, &[]) {
            if !e.starts_with("machinery") {
                out.violation = Some(e);
            }
        }
    }
    drop(db);
    let st = be.lock();
    if out.violation.is_none() {
        if let Some(e) = st.sync_errors.first() {
            out.violation = Some(format!("format: {e}"));
        } else if let Some(e) = st.violations.first() {
            out.violation = Some(format!("backend: {e}"));
        }
    }
    out
}

pub fn run(rep: &Report) {
    rep.set_rule(
        "Controlled schedules: for every victim call (durable 1PC / 2PC / quick-repair commit, non-durable commit, abort, drop of a writer, begin_read, begin_write, Savepoint drop, Database drop with and without a live writer) a dry run records which named pause points (hook H5) it passes; then for every such point x intruder call (begin_read + full read of two tables written together, drop of an older reader, drop of an ephemeral savepoint, begin_write + commit, two begin_reads, Database drop) x database state (plain / pending frees pinned by an old reader / pending non-durable commits) the victim is parked at the point, the intruder's whole call is run on another thread (classified ran / blocked after a logical timeout), the victim is resumed. Judged: a reader sees exactly one requested commit in both tables; a second writer never runs while the first is live; commit numbers read inside transactions form one serial order; the final state is the last acknowledged commit; the ownership accountant balances; both threads finish (CPU-time based deadlock detector, any other expiry is inconclusive). Stress: 2-5 writers contending on begin_write, 2-6 readers, a savepoint dropper, jitter at every pause point; M6 checks each reader's observations (one commit, never backwards, never older than a commit acknowledged before begin_read, never an aborted value) and the live-writer counter. evaluations = scripted scenarios + stress runs; distinct_nontrivial = distinct (victim, point, intruder, state, outcome) tuples reached",
    );
    rep.assume("preemption is exercised at the named pause points, by jitter there, and by the OS scheduler elsewhere; a 150 ms wait separates 'ran' from 'blocked'");
    install_hook();
    // enumerate scripted triples
    let mut triples: Vec<(Victim, &'static str, Intruder, u64)> = vec![];
    let _ = &mut triples;
    let states: Vec<u64> = vec![0, 1, 2, 3];
    let mut points_by_victim: BTreeMap<String, Vec<&'static str>> = BTreeMap::new();
    let tiny = crate::report::tiny();
    if tiny > 0 {
        // interpreter / sanitizer leg: a seeded handful of scripted triples
        let mut r = Rng::for_case(rep.seed, "C03tiny", 0);
        while (triples.len() as u64) < tiny {
            let v = *r.pick(&VICTIMS);
            let st = r.below(4);
            let pts = points_of(v, st);
            if pts.is_empty() {
                continue;
            }
            let p = *r.pick(&pts);
            let i = *r.pick(&INTRUDERS);
            if compatible(v, p, i) {
                points_by_victim.entry(format!("{v:?}")).or_default().push(p);
                triples.push((v, p, i, st));
            }
        }
    } else {
    for v in VICTIMS {
            let mut pts: Vec<&'static str> = vec![];
            for s in &states {
                for p in points_of(v, *s) {
                    if !pts.contains(&p) {
                        pts.push(p);
                    }
                }
            }
            points_by_victim.insert(format!("{v:?}"), pts.clone());
            for p in pts {
                for i in INTRUDERS {
                    if !compatible(v, p, i) {
                        continue;
                    }
                    for s in &states {
                        triples.push((v, p, i, *s));
                    }
                }
            }
        }
    }
    rep.extra("pause_points_reached_by_victim", json!(points_by_victim));
    let all_reached: BTreeSet<&str> = points_by_victim.values().flatten().copied().collect();
    rep.extra("pause_points_never_reached", json!(ALL_POINTS.iter().filter(|p| **p != "(none)" && !all_reached.contains(*p)).collect::<Vec<_>>()));
    let (scripted_share, n_stress) = match rep.tier {
        Tier::Quick => (1u64, 400u64),
        Tier::Thorough => (3u64, 4_000u64),
    };
    // late-root scenarios: 2 points x 4 x 4 commit kinds x 4 states
    let mut late: Vec<(&'static str, u64, u64, u64)> = vec![];
    if crate::report::tiny() == 0 {
        for p in ["read.before_register", "read.registered"] {
            for first in 0..4 {
                for later in 0..4 {
                    for st in 0..4 {
                        late.push((p, first, later, st));
                    }
                }
            }
        }
    }
    let n_late = late.len() as u64 * scripted_share;
    let n_scripted = triples.len() as u64 * scripted_share + n_late;
    let n_stress = if tiny > 0 { tiny.div_ceil(2) } else { n_stress };
    rep.count("scripted.triples_enumerated", triples.len() as u64);
    let outcomes: Mutex<BTreeMap<String, u64>> = Mutex::new(BTreeMap::new());
    run_cases(
        rep,
        n_scripted + n_stress,
        |case| {
            let replay = json!({"check": "C03", "seed": rep.seed, "case": case, "tier": rep.tier.name()});
            if case < n_late {
                let (p, first, later, st) = late[(case % late.len() as u64) as usize];
                let o = late_root_scenario(p, first, later, st, rep.seed ^ case);
                rep.eval(1);
                rep.count(&format!("late_root.{}", o.outcome), 1);
                if o.outcome != "n/a" {
                    rep.distinct(crate::rng::hash_bytes(st, format!("late{p}{first}{later}").as_bytes()));
                }
                if let Some(e) = o.inconclusive {
                    rep.inconclusive(e);
                }
                if let Some(e) = o.violation {
                    rep.violation(format!("late-root:{}", short_sig(&e)), format!("state {st}: {e}"), replay);
                }
                return;
            }
            if case < n_scripted {
                let (v, p, i, s) = triples[((case - n_late) % triples.len() as u64) as usize];
                let o = scenario(v, p, 0, i, s, rep.seed ^ case);
                rep.eval(1);
                rep.count(&format!("scripted.{}", o.outcome), 1);
                *outcomes.lock().unwrap().entry(format!("{v:?} @ {p} x {i:?} -> {}", o.outcome)).or_insert(0) += 1;
                if o.outcome != "n/a" {
                    rep.distinct(crate::rng::hash_bytes(s, format!("{v:?}{p}{i:?}{}", o.outcome).as_bytes()));
                }
                if let Some(e) = o.inconclusive {
                    rep.inconclusive(e);
                    rep.count("scripted.inconclusive", 1);
                }
                if let Some(e) = o.violation {
                    rep.violation(
                        format!("schedule:{}", short_sig(&e)),
                        format!("victim {v:?} parked at {p}, intruder {i:?}, state {s}: {e}"),
                        replay,
                    );
                } else if rep.want_sample() && o.outcome != "n/a" {
                    rep.sample(json!({"victim": format!("{v:?}"), "parked_at": p, "intruder": format!("{i:?}"), "state": s, "outcome": o.outcome}));
                }
            } else {
                let o = stress(rep.seed, case - n_scripted);
                rep.eval(1);
                rep.count("stress.runs", 1);
                rep.count("stress.commits", o.commits);
                rep.count("stress.aborts", o.aborts);
                rep.count("stress.reader_observations", o.reads);
                rep.count("stress.savepoints_created", o.savepoints);
                if o.commits > 0 && o.reads > 0 {
                    rep.distinct(mix(case, o.commits << 20 | o.reads));
                }
                if let Some(e) = o.violation {
                    rep.violation(format!("stress:{}", short_sig(&e)), format!("stress run {}: {e}", case - n_scripted), replay);
                }
            }
        },
        |case, p| {
            rep.violation(
                format!("panic:{}", p.location),
                format!("case {case}: {}", p.short()),
                json!({"check": "C03", "seed": rep.seed, "case": case, "tier": rep.tier.name()}),
            );
        },
    );
    let o = outcomes.into_inner().unwrap();
    let blocked: Vec<&String> = o.keys().filter(|k| k.ends_with("blocked")).collect();
    rep.extra("scripted_outcomes_blocked", json!(blocked));
    rep.extra("scripted_outcome_kinds", json!(o.len()));
}
