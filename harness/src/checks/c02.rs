//! C02 -- a read transaction sees one frozen snapshot, through every object it hands out, for as
//! long as any of them is alive.

use crate::checks::c01::{short_sig, tail};
use crate::model::*;
use crate::ops::*;
use crate::report::{Report, Tier, run_cases};
use crate::rng::{Rng, mix};
use crate::world::*;
use redb::{
    OwnedAccessGuard, OwnedMultimapValue, OwnedRange, ReadOnlyMultimapTable, ReadOnlyTable,
    ReadTransaction, ReadableDatabase,
};
use serde_json::json;
use std::collections::{BTreeMap, BTreeSet, VecDeque};
use std::ops::Bound;
use std::sync::Arc;

trait Live {
    fn check(&mut self, rng: &mut Rng) -> R<()>;
    fn kind(&self) -> &'static str;
}

struct LiveTxn {
    txn: ReadTransaction,
    snap: Arc<Contents>,
}
impl Live for LiveTxn {
    fn check(&mut self, _rng: &mut Rng) -> R<()> {
        let got = dump_read(&self.txn)?;
        if let Some(d) = diff_contents(&self.snap, &got) {
            return oracle(format!("ReadTransaction no longer shows its snapshot: {d}"));
        }
        Ok(())
    }
    fn kind(&self) -> &'static str {
        "ReadTransaction"
    }
}

struct LiveTable<KC: Col, VC: Col> {
    t: ReadOnlyTable<KC::T, VC::T>,
    snap: BTreeMap<Vec<u8>, Vec<u8>>,
    probes: Vec<Vec<u8>>,
}
impl<KC: Col, VC: Col> Live for LiveTable<KC, VC> {
    fn check(&mut self, rng: &mut Rng) -> R<()> {
        crate::typed::n_verify_all::<KC, VC, _>(&self.t, &self.snap)?;
        for _ in 0..4 {
            if self.probes.is_empty() {
                break;
            }
            let k = rng.pick(&self.probes).clone();
            n_get::<KC, VC, _>(&self.t, &self.snap, &k)?;
        }
        // a range in a random direction pattern
        let keys: Vec<&Vec<u8>> = self.snap.keys().collect();
        let (lo, hi) = if keys.len() >= 2 {
            let a = rng.usize(keys.len());
            let b = rng.usize(keys.len());
            (
                Bound::Included(keys[a.min(b)].clone()),
                Bound::Excluded(keys[a.max(b)].clone()),
            )
        } else {
            (Bound::Unbounded, Bound::Unbounded)
        };
        n_range::<KC, VC, _>(&self.t, &self.snap, &lo, &hi, rng.next(), 64)?;
        Ok(())
    }
    fn kind(&self) -> &'static str {
        "ReadOnlyTable"
    }
}

struct LiveRange<KC: Col, VC: Col> {
    r: OwnedRange<KC::T, VC::T>,
    rest: VecDeque<(Vec<u8>, Vec<u8>)>,
}
impl<KC: Col, VC: Col> Live for LiveRange<KC, VC> {
    fn check(&mut self, rng: &mut Rng) -> R<()> {
        // continue the half-consumed iterator by one entry, from either end
        let front = rng.bool();
        let got = if front { self.r.next() } else { self.r.next_back() };
        let want = if front {
            self.rest.pop_front()
        } else {
            self.rest.pop_back()
        };
        match (got, want) {
            (None, None) => Ok(()),
            (Some(g), Some((wk, wv))) => {
                let (k, v) = g.map_err(se("OwnedRange next"))?;
                let (gk, gv) = (KC::model(k.value()), VC::model(v.value()));
                ensure!(
                    gk == wk && gv == wv,
                    "half-consumed OwnedRange yielded key {} (value {}), its snapshot has {} (value {})",
                    hex(&gk),
                    hex(&gv),
                    hex(&wk),
                    hex(&wv)
                );
                Ok(())
            }
            (Some(g), None) => {
                let (k, _) = g.map_err(se("OwnedRange next"))?;
                oracle(format!(
                    "half-consumed OwnedRange yielded {} after its snapshot was exhausted",
                    hex(&KC::model(k.value()))
                ))
            }
            (None, Some((wk, _))) => oracle(format!(
                "half-consumed OwnedRange ended although its snapshot still has {}",
                hex(&wk)
            )),
        }
    }
    fn kind(&self) -> &'static str {
        "OwnedRange"
    }
}

struct LiveGuard<VC: Col> {
    g: OwnedAccessGuard<VC::T>,
    exp: Vec<u8>,
}
impl<VC: Col> Live for LiveGuard<VC> {
    fn check(&mut self, _rng: &mut Rng) -> R<()> {
        let v = VC::model(self.g.value());
        ensure!(v == self.exp, "OwnedAccessGuard shows {} but was created over {}", hex(&v), hex(&self.exp));
        Ok(())
    }
    fn kind(&self) -> &'static str {
        "OwnedAccessGuard"
    }
}

struct LiveMM<KC: Col, VC: Col> {
    t: ReadOnlyMultimapTable<KC::T, VC::T>,
    snap: BTreeMap<Vec<u8>, BTreeSet<Vec<u8>>>,
}
impl<KC: Col, VC: Col> Live for LiveMM<KC, VC> {
    fn check(&mut self, rng: &mut Rng) -> R<()> {
        let got = m_scan_all::<KC, VC, _>(&self.t)?;
        if got != self.snap {
            let mut a = Contents::new();
            let mut b = Contents::new();
            a.insert("mm".into(), TableModel::M(self.snap.clone()));
            b.insert("mm".into(), TableModel::M(got));
            return oracle(format!(
                "ReadOnlyMultimapTable no longer shows its snapshot: {}",
                diff_contents(&a, &b).unwrap_or_default()
            ));
        }
        if let Some(k) = self.snap.keys().nth(rng.usize(self.snap.len().max(1))) {
            m_get::<KC, VC, _>(&self.t, &self.snap, k, rng.bool())?;
        }
        m_len::<KC, VC, _>(&self.t, &self.snap)
    }
    fn kind(&self) -> &'static str {
        "ReadOnlyMultimapTable"
    }
}

struct LiveMMValues<VC: Col> {
    it: OwnedMultimapValue<VC::T>,
    rest: VecDeque<Vec<u8>>,
}
impl<VC: Col> Live for LiveMMValues<VC> {
    fn check(&mut self, rng: &mut Rng) -> R<()> {
        let front = rng.bool();
        let got = if front { self.it.next() } else { self.it.next_back() };
        let want = if front { self.rest.pop_front() } else { self.rest.pop_back() };
        match (got, want) {
            (None, None) => Ok(()),
            (Some(g), Some(w)) => {
                let v = VC::model(g.map_err(se("OwnedMultimapValue next"))?.value());
                ensure!(v == w, "half-consumed OwnedMultimapValue yielded {}, its snapshot has {}", hex(&v), hex(&w));
                Ok(())
            }
            (Some(g), None) => {
                let v = VC::model(g.map_err(se("OwnedMultimapValue next"))?.value());
                oracle(format!(
                    "half-consumed OwnedMultimapValue yielded {} after its snapshot was exhausted",
                    hex(&v)
                ))
            }
            (None, Some(w)) => oracle(format!("half-consumed OwnedMultimapValue ended although its snapshot still has {}", hex(&w))),
        }
    }
    fn kind(&self) -> &'static str {
        "OwnedMultimapValue"
    }
}

struct RichReader {
    seq: u64,
    objs: Vec<Box<dyn Live>>,
}

fn add_normal<KC: Col, VC: Col>(
    objs: &mut Vec<Box<dyn Live>>,
    t: ReadOnlyTable<KC::T, VC::T>,
    snap: &BTreeMap<Vec<u8>, Vec<u8>>,
    rng: &mut Rng,
    extra_probes: Vec<Vec<u8>>,
) -> R<()> {
    // an owned guard on some present key
    if !snap.is_empty() {
        let (k, v) = snap.iter().nth(rng.usize(snap.len())).unwrap();
        let g = t.get_owned(KC::real(k)).map_err(se("get_owned"))?;
        match g {
            Some(g) => objs.push(Box::new(LiveGuard::<VC> { g, exp: v.clone() })),
            None => return oracle(format!("get_owned({}) found nothing in a fresh reader", hex(k))),
        }
    }
    // a half-consumed owned range
    let (lo, hi) = (Bound::<Vec<u8>>::Unbounded, Bound::<Vec<u8>>::Unbounded);
    let mut r = t.range_owned(real_bounds::<KC>(&lo, &hi)).map_err(se("range_owned"))?;
    let mut rest: VecDeque<(Vec<u8>, Vec<u8>)> = snap.iter().map(|(k, v)| (k.clone(), v.clone())).collect();
    let pre = rng.usize(3);
    for _ in 0..pre {
        let got = r.next();
        let want = rest.pop_front();
        match (got, want) {
            (None, None) => {}
            (Some(g), Some((wk, _))) => {
                let (k, _) = g.map_err(se("OwnedRange next"))?;
                ensure!(KC::model(k.value()) == wk, "fresh OwnedRange out of order");
            }
            _ => return oracle("fresh OwnedRange length differs from the snapshot".into()),
        }
    }
    objs.push(Box::new(LiveRange::<KC, VC> { r, rest }));
    let mut probes: Vec<Vec<u8>> = snap.keys().cloned().collect();
    probes.extend(extra_probes);
    objs.push(Box::new(LiveTable::<KC, VC> {
        t,
        snap: snap.clone(),
        probes,
    }));
    Ok(())
}

fn add_mm<KC: Col, VC: Col>(
    objs: &mut Vec<Box<dyn Live>>,
    t: ReadOnlyMultimapTable<KC::T, VC::T>,
    snap: &BTreeMap<Vec<u8>, BTreeSet<Vec<u8>>>,
    rng: &mut Rng,
) -> R<()> {
    if !snap.is_empty() {
        let (k, vs) = snap.iter().nth(rng.usize(snap.len())).unwrap();
        let mut it = t.get_owned(KC::real(k)).map_err(se("mm get_owned"))?;
        let mut rest: VecDeque<Vec<u8>> = vs.iter().cloned().collect();
        if rng.bool() {
            if let Some(g) = it.next() {
                let v = VC::model(g.map_err(se("OwnedMultimapValue next"))?.value());
                let w = rest.pop_front();
                ensure!(Some(&v) == w.as_ref(), "fresh OwnedMultimapValue out of order");
            }
        }
        objs.push(Box::new(LiveMMValues::<VC> { it, rest }));
    }
    objs.push(Box::new(LiveMM::<KC, VC> { t, snap: snap.clone() }));
    Ok(())
}

fn open_rich(w: &mut World) -> R<RichReader> {
    let txn = w.db().begin_read().map_err(se("begin_read"))?;
    let snap = w.visible.clone();
    let mut objs: Vec<Box<dyn Live>> = vec![];
    // absent keys to probe too
    let absent: Vec<Vec<u8>> = (0..4).map(|i| key_u64(1000 + i)).collect();
    for (name, tm) in snap.iter() {
        if w.rng.chance(1, 3) {
            continue;
        }
        match (Kind::of_name(name).unwrap(), tm) {
            (Kind::A, TableModel::N(m)) => add_normal::<ColU64, ColBytes>(&mut objs, txn.open_table(def_a(name)).map_err(se("ro open_table"))?, m, &mut w.rng, absent.clone())?,
            (Kind::B, TableModel::N(m)) => add_normal::<ColBytes, ColBytes>(&mut objs, txn.open_table(def_b(name)).map_err(se("ro open_table"))?, m, &mut w.rng, vec![b"absent".to_vec()])?,
            (Kind::F, TableModel::N(m)) => add_normal::<ColU64, ColU64>(&mut objs, txn.open_table(def_f(name)).map_err(se("ro open_table"))?, m, &mut w.rng, absent.clone())?,
            (Kind::D, TableModel::M(m)) => add_mm::<ColU64, ColBytes>(&mut objs, txn.open_multimap_table(def_d(name)).map_err(se("ro open_multimap_table"))?, m, &mut w.rng)?,
            (Kind::E, TableModel::M(m)) => add_mm::<ColBytes, ColU64>(&mut objs, txn.open_multimap_table(def_e(name)).map_err(se("ro open_multimap_table"))?, m, &mut w.rng)?,
            _ => unreachable!(),
        }
    }
    // sometimes the transaction handle itself is dropped and only its objects live on
    if w.rng.chance(2, 3) || objs.is_empty() {
        objs.push(Box::new(LiveTxn { txn, snap }));
    }
    Ok(RichReader {
        seq: w.last_seq(),
        objs,
    })
}

fn verify_all(readers: &mut [RichReader], rng: &mut Rng, counts: &mut BTreeMap<&'static str, u64>) -> R<()> {
    for r in readers.iter_mut() {
        for o in r.objs.iter_mut() {
            *counts.entry(o.kind()).or_insert(0) += 1;
            o.check(rng).map_err(|f| match f {
                Fail::Oracle(s) => Fail::Oracle(format!("reader begun at commit seq {}: {} : {s}", r.seq, o.kind())),
                Fail::Storage(s) => Fail::Storage(format!("reader begun at commit seq {}: {}: {s}", r.seq, o.kind())),
            })?;
        }
    }
    Ok(())
}

struct CaseOut {
    steps: u64,
    reconsultations: BTreeMap<&'static str, u64>,
    commits_while_readers_alive: u64,
    max_readers: usize,
    after_close_checks: u64,
    after_close_errors: u64,
    world_counts: BTreeMap<String, u64>,
    trace: Option<Vec<String>>,
    cfg: Cfg,
}

fn one_case(seed: u64, case: u64, trace_on: bool) -> (CaseOut, Option<Fail>) {
    let mut rng = Rng::for_case(seed, "C02", case);
    let mut cfg = Cfg::pick(&mut rng);
    cfg.cache = *rng.pick(&[0usize, 4096, 65536, 1 << 30]);
    let steps = rng.range(6, 28);
    let mut out = CaseOut {
        steps: 0,
        reconsultations: BTreeMap::new(),
        commits_while_readers_alive: 0,
        max_readers: 0,
        after_close_checks: 0,
        after_close_errors: 0,
        world_counts: BTreeMap::new(),
        trace: None,
        cfg: cfg.clone(),
    };
    let mut w = match World::create(cfg, Opts::default(), rng) {
        Ok(w) => w,
        Err(e) => return (out, Some(e)),
    };
    if trace_on {
        w.trace = Some(vec![]);
    }
    let mut readers: Vec<RichReader> = vec![];
    let mut run = || -> R<()> {
        for _ in 0..steps {
            let roll = w.rng.below(100);
            match roll {
                0..=17 => {
                    if readers.len() < 8 {
                        let r = open_rich(&mut w)?;
                        readers.push(r);
                        if let Some(t) = w.trace.as_mut() {
                            t.push(format!("open rich reader at seq {}", readers.last().unwrap().seq));
                        }
                    }
                }
                18..=24 => {
                    if !readers.is_empty() {
                        let i = w.rng.usize(readers.len());
                        // drop the whole reader, or only some of its objects
                        if w.rng.bool() {
                            readers.swap_remove(i);
                        } else if readers[i].objs.len() > 1 {
                            let j = w.rng.usize(readers[i].objs.len());
                            readers[i].objs.swap_remove(j);
                        }
                    }
                }
                25..=28 => w.drop_random_esp(),
                29..=31 => {
                    // compaction must be refused while readers or savepoints exist
                    if !readers.is_empty() || !w.esp.is_empty() || !w.psp.is_empty() {
                        let before = w.be.lock().data.len();
                        let r = w.db.as_mut().unwrap().compact();
                        match r {
                            Err(redb::CompactionError::TransactionInProgress)
                            | Err(redb::CompactionError::EphemeralSavepointExists)
                            | Err(redb::CompactionError::PersistentSavepointExists) => {}
                            Err(redb::CompactionError::Storage(e)) => return Err(Fail::Storage(format!("compact: {e}"))),
                            Err(e) => return oracle(format!("compact() returned {e}")),
                            Ok(_) => {
                                return oracle("compact() ran while a read transaction or savepoint was alive".into());
                            }
                        }
                        let after = w.be.lock().data.len();
                        ensure!(before == after, "a refused compact() changed the file length");
                        w.bump("db.compact_refused");
                    }
                }
                _ => {
                    let plan = w.plan();
                    let committed = w.run_txn(&plan)?;
                    if committed && !readers.is_empty() {
                        out.commits_while_readers_alive += 1;
                    }
                }
            }
            out.steps += 1;
            out.max_readers = out.max_readers.max(readers.len());
            // every live object is re-consulted after every step
            let mut rr = Rng::new(mix(seed, out.steps));
            verify_all(&mut readers, &mut rr, &mut out.reconsultations)?;
        }
        Ok(())
    };
    let r = run();
    let mut fail = r.err();
    // finally drop the Database with readers alive: only DatabaseClosed errors are acceptable
    if fail.is_none() {
        w.esp.clear();
        w.db = None;
        let mut rr = Rng::new(mix(seed, 0xC10));
        for r in readers.iter_mut() {
            for o in r.objs.iter_mut() {
                out.after_close_checks += 1;
                match o.check(&mut rr) {
                    Ok(()) => {}
                    Err(Fail::Storage(s)) => {
                        out.after_close_errors += 1;
                        if !s.contains("Database has been closed") {
                            fail = Some(Fail::Oracle(format!(
                                "{} of a reader outliving the Database failed with something other than DatabaseClosed: {s}",
                                o.kind()
                            )));
                        }
                    }
                    Err(Fail::Oracle(s)) => {
                        fail = Some(Fail::Oracle(format!("after the Database was dropped: {} : {s}", o.kind())));
                    }
                }
                if fail.is_some() {
                    break;
                }
            }
        }
    }
    drop(readers);
    w.close();
    if fail.is_none() {
        if let Some(v) = w.be_violations.first() {
            fail = Some(Fail::Oracle(format!("backend contract: {v}")));
        }
    }
    out.world_counts = w.counts.clone();
    out.trace = w.trace.take();
    (out, fail)
}

pub fn run(rep: &Report) {
    rep.set_rule(
        "case = one history in which up to 8 readers begun at different commits are alive together, each holding some of: the ReadTransaction, ReadOnlyTable / ReadOnlyMultimapTable handles, half-consumed OwnedRange and OwnedMultimapValue iterators, OwnedAccessGuards -- with the transaction handle itself often dropped first. After every later step (commit of any durability / 2PC / quick-repair, abort, savepoint create/restore/delete, deletes that free pages, refused compact(), table delete/rename) every live object is re-consulted: full forward and backward scan, lookups of present and absent keys, ranges, len/first/last, one more step of each half-consumed iterator from a random end. Cache sizes 0 / 4 KiB / 64 KiB / 1 GiB. At the end the Database is dropped first and the survivors must return their snapshot or DatabaseClosed. evaluations = re-consultations of live objects; distinct_nontrivial = distinct cases with at least one commit while a reader was alive",
    );
    rep.assume("reader sets and histories are sampled; threaded interleavings of readers and writers are exercised by C03's stress");
    let n = match rep.tier {
        Tier::Quick => 40_000u64,
        Tier::Thorough => 600_000u64,
    };
    run_cases(
        rep,
        n,
        |case| {
            let replay = json!({"check": "C02", "seed": rep.seed, "case": case, "tier": rep.tier.name()});
            let trace_on = rep.replay_only.is_some() || rep.want_sample();
            let (out, fail) = one_case(rep.seed, case, trace_on);
            let recon: u64 = out.reconsultations.values().sum();
            rep.eval(recon.max(1));
            for (k, v) in &out.reconsultations {
                rep.count(&format!("reconsulted.{k}"), *v);
            }
            rep.count("steps", out.steps);
            rep.count("commits_while_readers_alive", out.commits_while_readers_alive);
            rep.count_max("max.readers_alive", out.max_readers as u64);
            rep.count("after_database_drop.checks", out.after_close_checks);
            rep.count("after_database_drop.database_closed_errors", out.after_close_errors);
            rep.count(&format!("cache.{}", out.cfg.cache), 1);
            rep.merge_counts(&out.world_counts);
            if out.commits_while_readers_alive > 0 {
                rep.distinct(mix(case, out.commits_while_readers_alive));
            }
            match fail {
                Some(f) => {
                    let kind = if matches!(f, Fail::Oracle(_)) { "snapshot" } else { "error" };
                    rep.violation(
                        format!("{kind}:{}", short_sig(f.text())),
                        format!("case {case} cfg {:?}: {}; trace tail {:?}", out.cfg, f.text(), tail(&out.trace)),
                        replay,
                    );
                }
                None => {
                    if rep.want_sample() {
                        rep.sample(json!({"case": case, "cfg": out.cfg.json(), "steps": out.steps, "max_readers_alive": out.max_readers,
                            "commits_while_readers_alive": out.commits_while_readers_alive, "reconsultations": recon,
                            "trace_head": out.trace.as_ref().map(|t| t.iter().take(25).cloned().collect::<Vec<_>>())}));
                    }
                }
            }
        },
        |case, p| {
            rep.violation(
                format!("panic:{}", p.location),
                format!("case {case}: {}", p.short()),
                json!({"check": "C02", "seed": rep.seed, "case": case, "tier": rep.tier.name()}),
            );
        },
    );
}
