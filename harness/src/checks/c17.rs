//! C17 -- the table catalog is consistent and type-safe.

use crate::checks::c01::{short_sig, tail};
use crate::checks::c06::{C06Out, acct_step};
use crate::model::*;
use crate::ops::*;
use crate::own::Acct;
use crate::report::{Report, Tier, run_cases};
use crate::rng::{Rng, mix};
use crate::typed::*;
use crate::world::Cfg;
use redb::{
    Database, MultimapTableDefinition, ReadableDatabase, ReadableTableMetadata, TableDefinition,
    TableError, TableHandle, WriteTransaction,
};
use serde_json::json;
use std::collections::{BTreeMap, BTreeSet};

pub struct ColTupU32U32;
impl Col for ColTupU32U32 {
    type T = (u32, u32);
    const FIXED: Option<usize> = Some(8);
    fn real<'a>(m: &'a [u8]) -> (u32, u32) {
        (
            u32::from_be_bytes(m[..4].try_into().unwrap()),
            u32::from_be_bytes(m[4..8].try_into().unwrap()),
        )
    }
    fn model(v: (u32, u32)) -> Vec<u8> {
        let mut o = v.0.to_be_bytes().to_vec();
        o.extend_from_slice(&v.1.to_be_bytes());
        o
    }
}
impl KeyGen for ColTupU32U32 {
    const NAME: &'static str = "(u32,u32)";
    fn key(i: u64) -> Vec<u8> {
        ColTupU32U32::model(((i % 7) as u32, (i * 2654435761) as u32))
    }
}

/// (description, is multimap). Same-width pairs on purpose: u64/i64, &str/&[u8], (u32,u32)/u64.
pub const TKINDS: [(&str, bool); 10] = [
    ("Table<u64,&[u8]>", false),
    ("Table<i64,&[u8]>", false),
    ("Table<&[u8],&[u8]>", false),
    ("Table<&str,&[u8]>", false),
    ("Table<(u32,u32),&[u8]>", false),
    ("Table<u64,u64>", false),
    ("Table<u64,i64>", false),
    ("MultimapTable<u64,&[u8]>", true),
    ("MultimapTable<u64,u64>", true),
    ("MultimapTable<&str,u64>", true),
];

macro_rules! with_tk {
    ($k:expr, $n:ident, $m:ident) => {
        match $k {
            0 => $n::<ColU64, ColBytes>,
            1 => $n::<ColI64, ColBytes>,
            2 => $n::<ColBytes, ColBytes>,
            3 => $n::<ColStr, ColBytes>,
            4 => $n::<ColTupU32U32, ColBytes>,
            5 => $n::<ColU64, ColU64>,
            6 => $n::<ColU64, ColI64>,
            7 => $m::<ColU64, ColBytes>,
            8 => $m::<ColU64, ColU64>,
            _ => $m::<ColStr, ColU64>,
        }
    };
}

#[derive(Clone, Debug, PartialEq, Eq)]
struct Entry {
    kind: usize,
    table: TableModel,
}

type Catalog = BTreeMap<String, Entry>;

#[derive(Debug, PartialEq, Eq, Clone)]
enum Outcome {
    Ok,
    Exists(bool),
    AlreadyOpen,
    DoesNotExist,
    TableExists,
    IsMultimap,
    IsNotMultimap,
    TypeMismatch,
    Other(String),
}

fn classify<T>(r: Result<T, TableError>) -> (Outcome, Option<T>) {
    match r {
        Ok(t) => (Outcome::Ok, Some(t)),
        Err(TableError::TableAlreadyOpen(..)) => (Outcome::AlreadyOpen, None),
        Err(TableError::TableDoesNotExist(_)) => (Outcome::DoesNotExist, None),
        Err(TableError::TableExists(_)) => (Outcome::TableExists, None),
        Err(TableError::TableIsMultimap(_)) => (Outcome::IsMultimap, None),
        Err(TableError::TableIsNotMultimap(_)) => (Outcome::IsNotMultimap, None),
        Err(TableError::TableTypeMismatch { .. }) => (Outcome::TypeMismatch, None),
        Err(TableError::TypeDefinitionChanged { .. }) => (Outcome::TypeMismatch, None),
        Err(e) => (Outcome::Other(e.to_string()), None),
    }
}

/// what the model says opening `name` as `kind` must do
fn expect_open(cat: &Catalog, open: &BTreeSet<String>, name: &str, kind: usize, write: bool) -> Outcome {
    if write && open.contains(name) {
        return Outcome::AlreadyOpen;
    }
    match cat.get(name) {
        None => {
            if write {
                Outcome::Ok
            } else {
                Outcome::DoesNotExist
            }
        }
        Some(e) => {
            let (_, sm) = TKINDS[e.kind];
            let (_, rm) = TKINDS[kind];
            if sm != rm {
                if sm { Outcome::IsMultimap } else { Outcome::IsNotMultimap }
            } else if e.kind != kind {
                Outcome::TypeMismatch
            } else {
                Outcome::Ok
            }
        }
    }
}

// ---- typed actions ---------------------------------------------------------------------------------

struct Ctx<'a> {
    rng: &'a mut Rng,
    trace: &'a mut Option<Vec<String>>,
}

fn tr(c: &mut Ctx<'_>, s: String) {
    if let Some(t) = c.trace.as_mut() {
        t.push(s);
    }
}

/// open (creating if needed), mutate a little, compare everything, close
fn w_open_n<KC: KeyGen, VC: Col>(txn: &WriteTransaction, name: &str, c: &mut Ctx<'_>, m: Option<&mut TableModel>, hold: bool) -> R<(Outcome, bool)> {
    let def: TableDefinition<KC::T, VC::T> = TableDefinition::new(name);
    let (o, t) = classify(txn.open_table(def));
    if let (Some(mut t), Some(m)) = (t, m) {
        let m = m.n();
        // a second open while the handle is alive must be refused
        let (o2, _) = classify(txn.open_table(def));
        ensure!(o2 == Outcome::AlreadyOpen, "second open_table({name}) in one transaction returned {o2:?}");
        n_verify_all::<KC, VC, _>(&t, m)?;
        let n = c.rng.range(0, 12);
        for _ in 0..n {
            let k = KC::key(c.rng.below(40));
            if c.rng.chance(2, 3) {
                let v = match VC::FIXED {
                    Some(w) => c.rng.bytes(w),
                    None => {
                        let l = c.rng.usize(700);
                        c.rng.bytes(l)
                    }
                };
                n_insert::<KC, VC>(&mut t, m, &k, &v)?;
            } else {
                n_remove::<KC, VC>(&mut t, m, &k)?;
            }
        }
        n_verify_all::<KC, VC, _>(&t, m)?;
        if hold {
            // operations on the catalog while the handle is open
            let (od, _) = classify(txn.delete_table(def));
            ensure!(od == Outcome::AlreadyOpen, "delete_table({name}) while the table is open returned {od:?}");
            let other: TableDefinition<KC::T, VC::T> = TableDefinition::new("zz-unused");
            let (or, _) = classify(txn.rename_table(def, other));
            ensure!(or == Outcome::AlreadyOpen, "rename_table({name}) while the table is open returned {or:?}");
            // renaming/deleting through the handle itself is allowed (it is consumed)
        }
        return Ok((o, true));
    }
    Ok((o, false))
}

fn w_open_m<KC: KeyGen, VC: KeyGen>(txn: &WriteTransaction, name: &str, c: &mut Ctx<'_>, m: Option<&mut TableModel>, _hold: bool) -> R<(Outcome, bool)> {
    let def: MultimapTableDefinition<KC::T, VC::T> = MultimapTableDefinition::new(name);
    let (o, t) = classify(txn.open_multimap_table(def));
    if let (Some(mut t), Some(m)) = (t, m) {
        let m = m.m();
        let (o2, _) = classify(txn.open_multimap_table(def));
        ensure!(o2 == Outcome::AlreadyOpen, "second open_multimap_table({name}) in one transaction returned {o2:?}");
        let got = m_scan_all::<KC, VC, _>(&t)?;
        ensure!(&got == m, "multimap {name} differs from the model when opened");
        let n = c.rng.range(0, 12);
        for _ in 0..n {
            let k = KC::key(c.rng.below(10));
            let v = VC::key(c.rng.below(30));
            if c.rng.chance(2, 3) {
                m_insert::<KC, VC>(&mut t, m, &k, &v)?;
            } else {
                m_remove::<KC, VC>(&mut t, m, &k, &v)?;
            }
        }
        let got = m_scan_all::<KC, VC, _>(&t)?;
        ensure!(&got == m, "multimap {name} differs from the model after edits");
        return Ok((o, true));
    }
    Ok((o, false))
}

fn w_delete_n<KC: KeyGen, VC: Col>(txn: &WriteTransaction, name: &str) -> Outcome {
    let def: TableDefinition<KC::T, VC::T> = TableDefinition::new(name);
    match txn.delete_table(def) {
        Ok(b) => Outcome::Exists(b),
        Err(e) => classify::<()>(Err(e)).0,
    }
}
fn w_delete_m<KC: KeyGen, VC: KeyGen>(txn: &WriteTransaction, name: &str) -> Outcome {
    let def: MultimapTableDefinition<KC::T, VC::T> = MultimapTableDefinition::new(name);
    match txn.delete_multimap_table(def) {
        Ok(b) => Outcome::Exists(b),
        Err(e) => classify::<()>(Err(e)).0,
    }
}
fn w_rename_n<KC: KeyGen, VC: Col>(txn: &WriteTransaction, name: &str, to: &str) -> Outcome {
    let a: TableDefinition<KC::T, VC::T> = TableDefinition::new(name);
    let b: TableDefinition<KC::T, VC::T> = TableDefinition::new(to);
    classify(txn.rename_table(a, b)).0
}
fn w_rename_m<KC: KeyGen, VC: KeyGen>(txn: &WriteTransaction, name: &str, to: &str) -> Outcome {
    let a: MultimapTableDefinition<KC::T, VC::T> = MultimapTableDefinition::new(name);
    let b: MultimapTableDefinition<KC::T, VC::T> = MultimapTableDefinition::new(to);
    classify(txn.rename_multimap_table(a, b)).0
}

fn r_open_n<KC: KeyGen, VC: Col>(rt: &redb::ReadTransaction, name: &str, m: Option<&TableModel>) -> R<Outcome> {
    let def: TableDefinition<KC::T, VC::T> = TableDefinition::new(name);
    let (o, t) = classify(rt.open_table(def));
    if let (Some(t), Some(TableModel::N(m))) = (t, m) {
        n_verify_all::<KC, VC, _>(&t, m)?;
        // the untyped view agrees on the length
        let u = rt.open_untyped_table(def).map_err(se("open_untyped_table"))?;
        ensure!(u.len().map_err(se("untyped len"))? == m.len() as u64, "open_untyped_table({name}).len() differs from the model");
        ensure!(u.name() == name, "untyped handle has name {}", u.name());
    }
    Ok(o)
}
fn r_open_m<KC: KeyGen, VC: KeyGen>(rt: &redb::ReadTransaction, name: &str, m: Option<&TableModel>) -> R<Outcome> {
    let def: MultimapTableDefinition<KC::T, VC::T> = MultimapTableDefinition::new(name);
    let (o, t) = classify(rt.open_multimap_table(def));
    if let (Some(t), Some(TableModel::M(m))) = (t, m) {
        let got = m_scan_all::<KC, VC, _>(&t)?;
        ensure!(&got == m, "committed multimap {name} differs from the model");
        let u = rt.open_untyped_multimap_table(def).map_err(se("open_untyped_multimap_table"))?;
        let pairs: u64 = m.values().map(|s| s.len() as u64).sum();
        ensure!(u.len().map_err(se("untyped len"))? == pairs, "open_untyped_multimap_table({name}).len() differs from the model");
    }
    Ok(o)
}

fn list_write(txn: &WriteTransaction) -> R<(BTreeSet<String>, BTreeSet<String>)> {
    let n: BTreeSet<String> = txn.list_tables().map_err(se("list_tables"))?.map(|h| h.name().to_string()).collect();
    let m: BTreeSet<String> = txn
        .list_multimap_tables()
        .map_err(se("list_multimap_tables"))?
        .map(|h| redb::MultimapTableHandle::name(&h).to_string())
        .collect();
    Ok((n, m))
}

fn list_model(cat: &Catalog) -> (BTreeSet<String>, BTreeSet<String>) {
    let n = cat.iter().filter(|(_, e)| !TKINDS[e.kind].1).map(|(k, _)| k.clone()).collect();
    let m = cat.iter().filter(|(_, e)| TKINDS[e.kind].1).map(|(k, _)| k.clone()).collect();
    (n, m)
}

fn verify_committed(db: &Database, cat: &Catalog, rng: &mut Rng) -> R<()> {
    let rt = db.begin_read().map_err(se("begin_read"))?;
    let n: BTreeSet<String> = rt.list_tables().map_err(se("list_tables"))?.map(|h| h.name().to_string()).collect();
    let m: BTreeSet<String> = rt
        .list_multimap_tables()
        .map_err(se("list_multimap_tables"))?
        .map(|h| redb::MultimapTableHandle::name(&h).to_string())
        .collect();
    let (en, em) = list_model(cat);
    ensure!(n == en && m == em, "a reader lists tables {n:?} / multimaps {m:?}, the model has {en:?} / {em:?}");
    for (name, e) in cat {
        let f = with_tk!(e.kind, r_open_n, r_open_m);
        let o = f(&rt, name, Some(&e.table))?;
        ensure!(o == Outcome::Ok, "a reader opening {name} with its own types got {o:?}");
        // and with a different kind
        let other = (e.kind + 1 + rng.usize(9)) % 10;
        let f = with_tk!(other, r_open_n, r_open_m);
        let o = f(&rt, name, None)?;
        let exp = expect_open(cat, &BTreeSet::new(), name, other, false);
        ensure!(
            o == exp,
            "a reader opening {name} (stored as {}) as {} got {o:?}, expected {exp:?}",
            TKINDS[e.kind].0,
            TKINDS[other].0
        );
    }
    let f = with_tk!(rng.usize(10), r_open_n, r_open_m);
    let o = f(&rt, "no-such-table", None)?;
    ensure!(o == Outcome::DoesNotExist, "a reader opening a missing table got {o:?}");
    Ok(())
}

struct Out {
    ops: BTreeMap<&'static str, u64>,
    refusals: BTreeMap<String, u64>,
    txns: u64,
    accountings: u64,
    trace: Option<Vec<String>>,
    cfg: Cfg,
}

fn one_case(seed: u64, case: u64, trace_on: bool) -> (Out, Option<Fail>) {
    let mut rng = Rng::for_case(seed, "C17", case);
    let cfg = Cfg {
        page_size: *rng.pick(&[512usize, 1024, 4096]),
        region_pages: *rng.pick(&[Some(32u64), Some(64), None]),
        cache: *rng.pick(&[0usize, 1 << 20]),
    };
    let mut out = Out {
        ops: BTreeMap::new(),
        refusals: BTreeMap::new(),
        txns: 0,
        accountings: 0,
        trace: if trace_on { Some(vec![]) } else { None },
        cfg: cfg.clone(),
    };
    let be = crate::backend::MonBackend::new();
    be.set_sync_hook(crate::fmt::sync_hook(false));
    let db = match cfg.builder().create_with_backend(be.clone()) {
        Ok(d) => d,
        Err(e) => return (out, Some(Fail::Storage(e.to_string()))),
    };
    let names = ["t0", "t1", "t2", "t3", "t4", "t5", "t6", "t7"];
    let mut cat: Catalog = BTreeMap::new();
    let mut trace = out.trace.take();
    let mut o6 = C06Out {
        steps: 0,
        accountings: 0,
        last: Acct::default(),
        max_alloc: 0,
        max_pending: 0,
        drained: false,
        drain_commits: 0,
        counts: BTreeMap::new(),
        trace: None,
        cfg: cfg.clone(),
        cow_evals: 0,
    };
    let r = (|| -> R<()> {
        let n_txn = rng.range(2, 10);
        for _ in 0..n_txn {
            let txn = db.begin_write().map_err(se("begin_write"))?;
            let mut work = cat.clone();
            let open: BTreeSet<String> = BTreeSet::new();
            let n_ops = rng.range(1, 14);
            for _ in 0..n_ops {
                let name = rng.pick(&names).to_string();
                let roll = rng.below(100);
                let mut c = Ctx { rng: &mut rng, trace: &mut trace };
                match roll {
                    0..=39 => {
                        // open with the stored kind (or a fresh kind if new), or deliberately another
                        let stored = work.get(&name).map(|e| e.kind);
                        let kind = match stored {
                            Some(k) if c.rng.chance(2, 3) => k,
                            _ => c.rng.usize(10),
                        };
                        let exp = expect_open(&work, &open, &name, kind, true);
                        let creating = !work.contains_key(&name);
                        if exp == Outcome::Ok && creating {
                            work.insert(
                                name.clone(),
                                Entry {
                                    kind,
                                    table: if TKINDS[kind].1 { TableModel::M(BTreeMap::new()) } else { TableModel::N(BTreeMap::new()) },
                                },
                            );
                        }
                        let hold = c.rng.chance(1, 4);
                        tr(&mut c, format!("open {name} as {} (expect {exp:?})", TKINDS[kind].0));
                        let f = with_tk!(kind, w_open_n, w_open_m);
                        let m = if exp == Outcome::Ok { work.get_mut(&name).map(|e| &mut e.table) } else { None };
                        let (o, _) = f(&txn, &name, &mut c, m, hold)?;
                        ensure!(
                            o == exp,
                            "open of {name} (stored as {}) as {} returned {o:?}, the model expects {exp:?}",
                            stored.map(|k| TKINDS[k].0).unwrap_or("nothing"),
                            TKINDS[kind].0
                        );
                        *out.ops.entry("open").or_insert(0) += 1;
                        if o != Outcome::Ok {
                            *out.refusals.entry(format!("open:{o:?}")).or_insert(0) += 1;
                        }
                    }
                    40..=59 => {
                        // delete, with the right or a wrong kind
                        let stored = work.get(&name).map(|e| e.kind);
                        let kind = match stored {
                            Some(k) if c.rng.chance(3, 4) => k,
                            _ => c.rng.usize(10),
                        };
                        let exp = match stored {
                            None => Outcome::Exists(false),
                            Some(k) => {
                                if TKINDS[k].1 != TKINDS[kind].1 {
                                    if TKINDS[k].1 { Outcome::IsMultimap } else { Outcome::IsNotMultimap }
                                } else {
                                    // deletion is by name and table kind only
                                    Outcome::Exists(true)
                                }
                            }
                        };
                        tr(&mut c, format!("delete {name} as {} (expect {exp:?})", TKINDS[kind].0));
                        let f = with_tk!(kind, w_delete_n, w_delete_m);
                        let o = f(&txn, &name);
                        ensure!(o == exp, "delete of {name} (stored as {:?}) as {} returned {o:?}, expected {exp:?}", stored.map(|k| TKINDS[k].0), TKINDS[kind].0);
                        if o == Outcome::Exists(true) {
                            work.remove(&name);
                        }
                        *out.ops.entry("delete").or_insert(0) += 1;
                        if !matches!(o, Outcome::Exists(_)) {
                            *out.refusals.entry(format!("delete:{o:?}")).or_insert(0) += 1;
                        }
                    }
                    60..=79 => {
                        // rename to a new name, an existing name, or itself
                        let to = if c.rng.chance(1, 6) { name.clone() } else { c.rng.pick(&names).to_string() };
                        let stored = work.get(&name).map(|e| e.kind);
                        let kind = match stored {
                            Some(k) if c.rng.chance(3, 4) => k,
                            _ => c.rng.usize(10),
                        };
                        let mm = TKINDS[kind].1;
                        let exp = match stored {
                            None => Outcome::DoesNotExist,
                            Some(k) if TKINDS[k].1 != mm => {
                                if TKINDS[k].1 { Outcome::IsMultimap } else { Outcome::IsNotMultimap }
                            }
                            Some(_) => {
                                if to == name {
                                    Outcome::Ok
                                } else {
                                    match work.get(&to) {
                                        None => Outcome::Ok,
                                        Some(e2) if TKINDS[e2.kind].1 != mm => {
                                            if TKINDS[e2.kind].1 { Outcome::IsMultimap } else { Outcome::IsNotMultimap }
                                        }
                                        Some(_) => Outcome::TableExists,
                                    }
                                }
                            }
                        };
                        tr(&mut c, format!("rename {name} -> {to} as {} (expect {exp:?})", TKINDS[kind].0));
                        let f = with_tk!(kind, w_rename_n, w_rename_m);
                        let o = f(&txn, &name, &to);
                        ensure!(o == exp, "rename {name} -> {to} (stored {:?}, target {:?}) as {} returned {o:?}, expected {exp:?}",
                            stored.map(|k| TKINDS[k].0), work.get(&to).map(|e| TKINDS[e.kind].0), TKINDS[kind].0);
                        if o == Outcome::Ok && to != name {
                            let e = work.remove(&name).unwrap();
                            work.insert(to, e);
                        }
                        *out.ops.entry("rename").or_insert(0) += 1;
                        if o != Outcome::Ok {
                            *out.refusals.entry(format!("rename:{o:?}")).or_insert(0) += 1;
                        }
                    }
                    _ => {
                        let (n, m) = list_write(&txn)?;
                        let (en, em) = list_model(&work);
                        ensure!(n == en && m == em, "inside the transaction list_tables = {n:?} / {m:?}, the model has {en:?} / {em:?}");
                        *out.ops.entry("list").or_insert(0) += 1;
                    }
                }
            }
            // catalog changes are invisible to others before commit
            verify_committed(&db, &cat, &mut rng)?;
            let end = rng.below(10);
            if end < 7 {
                let mut txn = txn;
                if rng.chance(1, 4) {
                    txn.set_durability(redb::Durability::None).map_err(se("set_durability"))?;
                }
                if rng.chance(1, 5) {
                    txn.set_quick_repair(true);
                }
                txn.commit().map_err(se("commit"))?;
                cat = work;
                if let Some(t) = trace.as_mut() {
                    t.push("commit".into());
                }
            } else if end < 9 {
                txn.abort().map_err(se("abort"))?;
                if let Some(t) = trace.as_mut() {
                    t.push("abort".into());
                }
            } else {
                drop(txn);
            }
            out.txns += 1;
            verify_committed(&db, &cat, &mut rng)?;
            // deleted tables must have released their storage: exact accounting
            match crate::own::account(&db, &[]) {
                Ok(a) => {
                    o6.accountings += 1;
                    o6.last = a;
                }
                Err(e) => return oracle(e),
            }
        }
        // delete everything: all storage of every table must go away
        let txn = db.begin_write().map_err(se("begin_write"))?;
        for (name, e) in cat.clone() {
            let f = with_tk!(e.kind, w_delete_n, w_delete_m);
            let o = f(&txn, &name);
            ensure!(o == Outcome::Exists(true), "final delete of {name} returned {o:?}");
        }
        txn.commit().map_err(se("commit"))?;
        cat.clear();
        for _ in 0..3 {
            db.begin_write().map_err(se("begin_write"))?.commit().map_err(se("commit"))?;
        }
        match crate::own::account(&db, &[]) {
            Ok(a) => {
                ensure!(a.data_pages == 0, "after deleting every table {} data pages are still reachable", a.data_pages);
                ensure!(a.pending_free == 0, "after deleting every table and 3 empty commits {} pages are still pending free", a.pending_free);
                o6.accountings += 1;
            }
            Err(e) => return oracle(e),
        }
        verify_committed(&db, &cat, &mut rng)?;
        let _ = acct_step;
        Ok(())
    })();
    drop(db);
    let mut fail = r.err();
    {
        let st = be.lock();
        if fail.is_none() {
            if let Some(v) = st.violations.first() {
                fail = Some(Fail::Oracle(format!("backend contract: {v}")));
            } else if let Some(e) = st.sync_errors.first() {
                fail = Some(Fail::Oracle(format!("format: {e}")));
            }
        }
    }
    out.accountings = o6.accountings;
    out.trace = trace;
    (out, fail)
}

// ---------------------------------------------------------------------------------------------
// user-defined key/value types: same name with another width, another name with the same width

/// fixed-width user type called "rv::Point", W bytes wide, ordered bytewise
#[derive(Debug)]
pub struct Pt<const W: usize>;
/// variable-width user type with the same name
#[derive(Debug)]
pub struct PtVar;
/// fixed-width user type with another name
#[derive(Debug)]
pub struct Oth<const W: usize>;

macro_rules! fixed_udt {
    ($t:ident, $name:expr) => {
        impl<const W: usize> redb::Value for $t<W> {
            type SelfType<'a> = [u8; W] where Self: 'a;
            type AsBytes<'a> = [u8; W] where Self: 'a;
            fn fixed_width() -> Option<usize> {
                Some(W)
            }
            fn from_bytes<'a>(data: &'a [u8]) -> [u8; W]
            where
                Self: 'a,
            {
                let mut o = [0u8; W];
                let n = data.len().min(W);
                o[..n].copy_from_slice(&data[..n]);
                o
            }
            fn as_bytes<'a, 'b: 'a>(value: &'a [u8; W]) -> [u8; W]
            where
                Self: 'b,
            {
                *value
            }
            fn type_name() -> redb::TypeName {
                redb::TypeName::new($name)
            }
        }
        impl<const W: usize> redb::Key for $t<W> {
            fn compare(a: &[u8], b: &[u8]) -> std::cmp::Ordering {
                a.cmp(b)
            }
        }
    };
}
fixed_udt!(Pt, "rv::Point");
fixed_udt!(Oth, "rv::Other");
impl redb::Value for PtVar {
    type SelfType<'a> = &'a [u8] where Self: 'a;
    type AsBytes<'a> = &'a [u8] where Self: 'a;
    fn fixed_width() -> Option<usize> {
        None
    }
    fn from_bytes<'a>(data: &'a [u8]) -> &'a [u8]
    where
        Self: 'a,
    {
        data
    }
    fn as_bytes<'a, 'b: 'a>(value: &'a &'b [u8]) -> &'a [u8]
    where
        Self: 'b,
    {
        value
    }
    fn type_name() -> redb::TypeName {
        redb::TypeName::new("rv::Point")
    }
}
impl redb::Key for PtVar {
    fn compare(a: &[u8], b: &[u8]) -> std::cmp::Ordering {
        a.cmp(b)
    }
}

/// how to make the i-th value of a user type
pub trait Mk: redb::Value {
    const DESC: (&'static str, Option<usize>);
    fn with<R>(i: u8, f: impl FnOnce(&Self::SelfType<'_>) -> R) -> R;
}
impl<const W: usize> Mk for Pt<W> {
    const DESC: (&'static str, Option<usize>) = ("rv::Point", Some(W));
    fn with<R>(i: u8, f: impl FnOnce(&[u8; W]) -> R) -> R {
        f(&[i; W])
    }
}
impl<const W: usize> Mk for Oth<W> {
    const DESC: (&'static str, Option<usize>) = ("rv::Other", Some(W));
    fn with<R>(i: u8, f: impl FnOnce(&[u8; W]) -> R) -> R {
        f(&[i; W])
    }
}
impl Mk for PtVar {
    const DESC: (&'static str, Option<usize>) = ("rv::Point", None);
    fn with<R>(i: u8, f: impl FnOnce(&&[u8]) -> R) -> R {
        let v = vec![i; 3 + (i as usize % 9)];
        f(&v.as_slice())
    }
}

fn udt_create<K: redb::Key + Mk + 'static, V: redb::Value + Mk + 'static>(db: &Database, multimap: bool) -> Result<(), String> {
    let txn = db.begin_write().map_err(|e| e.to_string())?;
    if multimap {
        let mut t = txn.open_multimap_table(MultimapTableDefinition::<K, Pt<4>>::new("udt")).map_err(|e| e.to_string())?;
        for i in 1..20u8 {
            K::with(i, |k| <Pt<4> as Mk>::with(i, |v| t.insert(k, v).map(|_| ()))).map_err(|e| e.to_string())?;
        }
    } else {
        let mut t = txn.open_table(TableDefinition::<K, V>::new("udt")).map_err(|e| e.to_string())?;
        for i in 1..20u8 {
            K::with(i, |k| V::with(i, |v| t.insert(k, v).map(|_| ()))).map_err(|e| e.to_string())?;
        }
    }
    txn.commit().map_err(|e| e.to_string())
}

/// open "udt" as (K, V) in a write and in a read transaction; returns (write accepted, read accepted)
fn udt_open<K: redb::Key + Mk + 'static, V: redb::Value + Mk + 'static>(db: &Database, multimap: bool) -> Result<(bool, bool), String> {
    let judge = |r: Result<(), TableError>| -> Result<bool, String> {
        match r {
            Ok(()) => Ok(true),
            Err(TableError::TableTypeMismatch { .. }) | Err(TableError::TypeDefinitionChanged { .. }) => Ok(false),
            Err(e) => Err(format!("unexpected error {e}")),
        }
    };
    let txn = db.begin_write().map_err(|e| e.to_string())?;
    let w = if multimap {
        judge(txn.open_multimap_table(MultimapTableDefinition::<K, Pt<4>>::new("udt")).map(|_| ()))?
    } else {
        judge(txn.open_table(TableDefinition::<K, V>::new("udt")).map(|_| ()))?
    };
    txn.abort().map_err(|e| e.to_string())?;
    let rt = db.begin_read().map_err(|e| e.to_string())?;
    let r = if multimap {
        judge(rt.open_multimap_table(MultimapTableDefinition::<K, Pt<4>>::new("udt")).map(|_| ()))?
    } else {
        judge(rt.open_table(TableDefinition::<K, V>::new("udt")).map(|_| ()))?
    };
    Ok((w, r))
}

type UdtFn = fn(&Database, bool) -> Result<(), String>;
type UdtOpenFn = fn(&Database, bool) -> Result<(bool, bool), String>;
type Desc = (&'static str, Option<usize>);

macro_rules! udt_table {
    ($($k:ty),* ; $($v:ty),*) => {{
        let mut out: Vec<(Desc, Desc, UdtFn, UdtOpenFn)> = vec![];
        udt_table!(@k out; [$($k),*]; [$($v),*]);
        out
    }};
    (@k $out:ident; [$($k:ty),*]; $vs:tt) => {
        $( udt_table!(@v $out; $k; $vs); )*
    };
    (@v $out:ident; $k:ty; [$($v:ty),*]) => {
        $( $out.push((<$k as Mk>::DESC, <$v as Mk>::DESC, udt_create::<$k, $v> as UdtFn, udt_open::<$k, $v> as UdtOpenFn)); )*
    };
}

/// one stored (key type, value type) against every requested pair
fn udt_case(seed: u64, case: u64) -> (u64, u64, Option<String>) {
    let table = udt_table!(Pt<8>, Pt<12>, PtVar, Oth<8> ; Pt<8>, Pt<12>, PtVar, Oth<8>);
    let mut rng = Rng::for_case(seed, "C17udt", case);
    let stored = rng.usize(table.len());
    let multimap = rng.chance(1, 3);
    let cfg = Cfg { page_size: *rng.pick(&[512usize, 4096]), region_pages: Some(64), cache: 1 << 20 };
    let db = match cfg.builder().create_with_backend(redb::backends::InMemoryBackend::new()) {
        Ok(d) => d,
        Err(e) => return (0, 0, Some(format!("create: {e}"))),
    };
    let (sk, sv, create, _) = table[stored];
    if let Err(e) = create(&db, multimap) {
        return (0, 0, Some(format!("creating the table as ({sk:?}, {sv:?}): {e}")));
    }
    let (mut opens, mut refused) = (0, 0);
    for (rk, rv, _, open) in &table {
        // a multimap stratum always stores Pt<4> values: only the key type varies
        let same = *rk == sk && (multimap || *rv == sv);
        match crate::report::guarded(|| open(&db, multimap)) {
            Ok(Ok((w, r))) => {
                opens += 2;
                for (what, accepted) in [("write", w), ("read", r)] {
                    if accepted && !same {
                        return (opens, refused, Some(format!(
                            "a {} stored with key type {sk:?} and value type {sv:?} (name, fixed width) was opened in a {what} transaction with key type {rk:?} and value type {rv:?}: the stored bytes are reinterpreted instead of the open being refused",
                            if multimap { "multimap table" } else { "table" }
                        )));
                    }
                    if !accepted && same {
                        return (opens, refused, Some(format!("opening a table with exactly its stored user-defined types ({sk:?}, {sv:?}) was refused in a {what} transaction")));
                    }
                    if !accepted {
                        refused += 1;
                    }
                }
            }
            Ok(Err(e)) => return (opens, refused, Some(format!("opening as ({rk:?}, {rv:?}) a table stored as ({sk:?}, {sv:?}): {e}"))),
            Err(p) => return (opens, refused, Some(format!("opening as ({rk:?}, {rv:?}) a table stored as ({sk:?}, {sv:?}) panicked: {}", p.short()))),
        }
    }
    (opens, refused, None)
}

pub fn run(rep: &Report) {
    rep.set_rule(
        "case = a sequence of transactions over 8 table names and 10 (kind, key type, value type) instantiations that include same-width pairs (u64/i64, &str/&[u8], (u32,u32)/u64; normal and multimap): open (creating, with the stored types or deliberately others), second open while a handle is alive, delete and rename (to a new name, an existing name, itself; with the right or the wrong table kind; while a handle is open), list; every outcome must be the one a name -> (kind, types, contents) map prescribes (Ok, TableAlreadyOpen, TableDoesNotExist, TableExists, TableIsMultimap, TableIsNotMultimap, TableTypeMismatch). Contents follow a table through renames; catalog changes are invisible to readers before commit and vanish on abort/drop; readers re-open every table with its own and with other types and through the untyped API; the ownership accountant runs after every transaction (a deleted table's pages may not leak) and after deleting everything no data page and, after 3 empty commits, no pending-free page may remain. evaluations = catalog operations; distinct_nontrivial = distinct cases with at least one refused operation",
    );
    rep.assume("user-defined types are exercised in a separate stratum (same name with another fixed width or variable width, another name with the same width), in key and value position, tables and multimap tables, write and read transactions");
    let n = match rep.tier {
        Tier::Quick => 120_000u64,
        Tier::Thorough => 1_000_000u64,
    };
    run_cases(
        rep,
        n,
        |case| {
            let replay = json!({"check": "C17", "seed": rep.seed, "case": case, "tier": rep.tier.name()});
            if case % 50 == 7 {
                let (opens, refused, fail) = udt_case(rep.seed, case);
                rep.eval(opens.max(1));
                rep.count("udt.cases", 1);
                rep.count("udt.opens_judged", opens);
                rep.count("udt.opens_refused", refused);
                if refused > 0 {
                    rep.distinct(mix(case, 0x0d7));
                }
                if let Some(e) = fail {
                    rep.violation(format!("udt:{}", short_sig(&e)), format!("case {case}: {e}"), replay);
                }
                return;
            }
            let trace_on = rep.replay_only.is_some() || rep.want_sample();
            let (out, fail) = one_case(rep.seed, case, trace_on);
            let ops: u64 = out.ops.values().sum();
            rep.eval(ops.max(1));
            for (k, v) in &out.ops {
                rep.count(&format!("op.{k}"), *v);
            }
            for (k, v) in &out.refusals {
                rep.count(&format!("refused.{k}"), *v);
            }
            rep.count("transactions", out.txns);
            rep.count("accountings", out.accountings);
            let refusals: u64 = out.refusals.values().sum();
            if refusals > 0 {
                rep.distinct(mix(case, refusals));
            }
            match fail {
                Some(f) => {
                    if f.text().starts_with("machinery") {
                        rep.machinery(format!("case {case}: {}", f.text()));
                    } else {
                        rep.violation(
                            format!("catalog:{}", short_sig(f.text())),
                            format!("case {case} cfg {:?}: {}; trace tail {:?}", out.cfg, f.text(), tail(&out.trace)),
                            replay,
                        );
                    }
                }
                None => {
                    if rep.want_sample() {
                        rep.sample(json!({"case": case, "cfg": out.cfg.json(), "transactions": out.txns, "operations": ops,
                            "refusals": format!("{:?}", out.refusals),
                            "trace_head": out.trace.as_ref().map(|t| t.iter().take(25).cloned().collect::<Vec<_>>())}));
                    }
                }
            }
        },
        |case, p| {
            rep.violation(
                format!("panic:{}", p.location),
                format!("case {case}: {}", p.short()),
                json!({"check": "C17", "seed": rep.seed, "case": case, "tier": rep.tier.name()}),
            );
        },
    );
}
