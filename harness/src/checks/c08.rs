//! C08 -- storage errors never corrupt or silently lose data (fault enumeration over backend calls).

use crate::backend::*;
use crate::checks::c01::{short_sig, tail};
use crate::crash::{CrashBudget, CrashImage, Enumerator};
use crate::model::diff_contents;
use crate::ops::*;
use crate::recover::{RecCtx, RecStats, window};
use crate::report::{Report, Tier, guarded, run_cases};
use crate::rng::{Rng, mix};
use crate::world::*;
use redb::ReadableDatabase;
use serde_json::json;

#[derive(Clone, Copy, Debug)]
pub struct FaultSpec {
    pub k: u64,
    pub mask: u8,
    pub permanent: bool,
}

pub struct FaultOut {
    pub calls: u64,
    pub fired: u64,
    pub reported_error: Option<String>,
    pub violation: Option<String>,
    pub images: u64,
    pub steps: usize,
    pub error_site: String,
    pub trace: Option<Vec<String>>,
    pub writes_refused: bool,
    pub reads_after_fault: u64,
    pub read_errors_after_fault: u64,
}

fn step(w: &mut World) -> R<&'static str> {
    let roll = w.rng.below(100);
    match roll {
        0..=7 => {
            if w.readers.len() < 3 {
                w.open_reader()?;
            } else {
                w.drop_random_reader();
            }
            Ok("reader")
        }
        8..=13 => {
            w.verify_readers()?;
            Ok("verify_readers")
        }
        14..=16 => {
            w.drop_random_esp();
            Ok("drop_savepoint")
        }
        17..=18 => {
            w.check_integrity()?;
            Ok("check_integrity")
        }
        19..=20 => {
            w.compact()?;
            Ok("compact")
        }
        _ => {
            let mut plan = w.plan();
            if plan.end != End::Commit && w.rng.chance(1, 2) {
                plan.end = End::Commit;
            }
            w.run_txn(&plan)?;
            Ok("txn")
        }
    }
}

/// Run history `hist` with an optional injected fault. Deterministic given (seed, hist): the
/// fault-free run and the faulted runs issue the same calls up to the fault.
pub fn run_faulted(seed: u64, hist: u64, fault: Option<FaultSpec>, trace_on: bool) -> FaultOut {
    let mut rng = Rng::for_case(seed, "C08", hist);
    let cfg = Cfg {
        page_size: *rng.pick(&[512usize, 512, 1024]),
        region_pages: *rng.pick(&[Some(32u64), Some(64)]),
        cache: *rng.pick(&[0usize, 0, 4096, 1 << 20]),
    };
    let n_steps = rng.range(4, 12) as usize;
    let mut out = FaultOut {
        calls: 0,
        fired: 0,
        reported_error: None,
        violation: None,
        images: 0,
        steps: 0,
        error_site: String::new(),
        trace: None,
        writes_refused: false,
        reads_after_fault: 0,
        read_errors_after_fault: 0,
    };
    let mut opts = Opts::default();
    opts.max_ops = 16;
    let mut w = match World::create(cfg, opts, rng) {
        Ok(w) => w,
        Err(e) => {
            out.violation = Some(format!("create failed: {}", e.text()));
            return out;
        }
    };
    if trace_on {
        w.trace = Some(vec![]);
    }
    w.be.start_recording();
    let calls_at_start = w.be.lock().calls;
    if let Some(f) = fault {
        w.be.set_fault(Fault::new(f.k, f.mask, f.permanent));
    }
    // the index of the last commit whose commit() returned Ok
    let mut last_ok = 0usize;
    for _ in 0..n_steps {
        let r = guarded(|| step(&mut w));
        match r {
            Err(p) => {
                out.violation = Some(format!(
                    "panic out of a redb call {} the injected failure: {}",
                    if w.be.lock().fault.fired > 0 { "after" } else { "before" },
                    p.short()
                ));
                break;
            }
            Ok(Ok(_)) => {
                out.steps += 1;
                last_ok = w.commits.len() - 1;
            }
            Ok(Err(Fail::Oracle(s))) => {
                out.violation = Some(format!(
                    "wrong result {} the injected failure: {s}",
                    if w.be.lock().fault.fired > 0 { "after" } else { "before" }
                ));
                break;
            }
            Ok(Err(Fail::Storage(s))) => {
                if w.be.lock().fault.fired == 0 {
                    out.violation = Some(format!("storage error without any injected failure: {s}"));
                } else {
                    out.reported_error = Some(s.clone());
                    out.error_site = s.split(':').next().unwrap_or("").to_string();
                }
                break;
            }
        }
    }
    // ---- after a reported error: writes refused, reads correct-or-error
    if out.violation.is_none() && out.reported_error.is_some() {
        w.readers.clear();
        w.esp.clear();
        let latched = out
            .reported_error
            .as_ref()
            .map(|e| e.contains("I/O error") || e.contains("Previous I/O"))
            .unwrap_or(false);
        let r = guarded(|| -> Result<(bool, u64, u64), String> {
            let db = w.db();
            let refused = match db.begin_write() {
                Err(_) => true,
                Ok(txn) => {
                    // tolerated only if it cannot commit either
                    let c = txn.commit();
                    c.is_err()
                }
            };
            let mut reads = 0u64;
            let mut read_errs = 0u64;
            for _ in 0..2 {
                match db.begin_read() {
                    Err(_) => read_errs += 1,
                    Ok(rt) => match dump_read(&rt) {
                        Err(Fail::Storage(_)) => read_errs += 1,
                        Err(Fail::Oracle(s)) => return Err(format!("a read after the failure returned inconsistent data: {s}")),
                        Ok(c) => {
                            reads += 1;
                            // must be the state of a commit point between the last commit that
                            // returned Ok and the last commit requested
                            let mut ok = false;
                            for cp in &w.commits[last_ok..] {
                                if *cp.contents == c {
                                    ok = true;
                                }
                            }
                            if !ok {
                                let d = diff_contents(&w.commits[last_ok].contents, &c).unwrap_or_default();
                                return Err(format!(
                                    "a read after the failure returned data that is no committed state (vs last successful commit: {d})"
                                ));
                            }
                        }
                    },
                }
            }
            Ok((refused, reads, read_errs))
        });
        match r {
            Err(p) => out.violation = Some(format!("panic after the reported error: {}", p.short())),
            Ok(Err(e)) => out.violation = Some(e),
            Ok(Ok((refused, reads, errs))) => {
                out.writes_refused = refused;
                out.reads_after_fault = reads;
                out.read_errors_after_fault = errs;
                if latched && !refused {
                    out.violation = Some(format!(
                        "after the error '{}' a new write transaction was accepted and committed without reopening",
                        out.reported_error.clone().unwrap_or_default()
                    ));
                }
            }
        }
    }
    // ---- drop, then reopen whatever survived (fault cleared) under every crash state of the tail
    let dropped = guarded(|| {
        w.readers.clear();
        w.esp.clear();
        w.db = None;
    });
    if let Err(p) = dropped {
        if out.violation.is_none() {
            out.violation = Some(format!("panic while dropping the database after the failure: {}", p.short()));
        }
    }
    {
        let st = w.be.lock();
        out.calls = st.calls - calls_at_start;
        out.fired = st.fault.fired;
        if out.violation.is_none() && st.counts.close != 1 {
            out.violation = Some(format!("close() called {} times", st.counts.close));
        }
    }
    out.trace = w.trace.take();
    if out.violation.is_some() {
        return out;
    }
    let (base, log, live) = {
        let st = w.be.lock();
        (st.base.clone(), st.log.clone(), st.data.clone())
    };
    let pos = log.len();
    let (floor, ceil) = window(&w.commits, pos);
    let mut ctx = RecCtx {
        cfg: &w.cfg,
        opts: &w.opts,
        commits: &w.commits,
        seed: seed ^ hist,
        stats: RecStats::default(),
        depth: 0,
        deep_every: 5,
        check_m2: true,
        check_integrity: true,
        rec_every: 0,
        rec_cap: 0,
    };
    // the storage exactly as it is
    let ci = CrashImage {
        pos,
        sync_pos: pos,
        applied: vec![],
        window: 0,
        tear: None,
        policy: "as-dropped",
    };
    ctx.stats.images += 1;
    if let Err(e) = ctx.check_in_window(&ci, live, 1, floor, ceil) {
        out.violation = Some(format!("reopening the storage as it was left: {e}"));
        out.images = ctx.stats.images;
        return out;
    }
    // crash states of the unsynced tail
    let last_sync = log
        .iter()
        .rposition(|e| matches!(e, crate::backend::Ev::Sync))
        .map(|i| i + 1)
        .unwrap_or(0);
    if last_sync < pos {
        let mut en = Enumerator::new(&base, &log, CrashBudget::recursion(), seed ^ 0xC08);
        let mut err = None;
        let mut n = 0;
        en.run(last_sync + 1, pos, &mut |ci, img| {
            n += 1;
            ctx.stats.images += 1;
            let (f2, c2) = window(&w.commits, ci.pos);
            match ctx.check_in_window(ci, img, 1, f2.min(floor), c2.max(ceil).min(w.commits.len() - 1)) {
                Ok(()) => n < 40,
                Err(e) => {
                    err = Some(format!("crash state {} of the storage left behind: {e}", ci.describe()));
                    false
                }
            }
        });
        if let Some(e) = err {
            out.violation = Some(e);
        }
    }
    out.images = ctx.stats.images;
    out
}

const QT: redb::TableDefinition<u64, &[u8]> = redb::TableDefinition::new("q");

struct QueuedOut {
    fired: bool,
    commit_failed: bool,
    queued_refused: bool,
    violation: Option<String>,
}

/// Writer B is waiting inside begin_write() for the write slot while writer A's commit hits a
/// storage failure: B must be refused (or, if it is handed a transaction, that is a violation
/// of "later write attempts are refused"), nothing may panic, reads stay correct, and the storage
/// left behind must reopen to the state before or after A's commit.
fn queued_writer_case(seed: u64, case: u64) -> QueuedOut {
    use std::sync::atomic::{AtomicBool, Ordering};
    let mut rng = Rng::for_case(seed, "C08queued", case);
    let mut out = QueuedOut { fired: false, commit_failed: false, queued_refused: false, violation: None };
    let cfg = Cfg { page_size: 512, region_pages: Some(64), cache: *rng.pick(&[0usize, 4096, 1 << 20]) };
    let be = MonBackend::new();
    let db = match cfg.builder().create_with_backend(be.clone()) {
        Ok(d) => std::sync::Arc::new(d),
        Err(e) => {
            out.violation = Some(format!("create: {e}"));
            return out;
        }
    };
    let fill = |db: &redb::Database, tag: u8, n: u64| -> Result<(), String> {
        let txn = db.begin_write().map_err(|e| e.to_string())?;
        {
            let mut t = txn.open_table(QT).map_err(|e| e.to_string())?;
            for i in 0..n {
                t.insert(i, vec![tag; 40 + (i as usize * 37) % 700].as_slice()).map_err(|e| e.to_string())?;
            }
        }
        txn.commit().map_err(|e| e.to_string())
    };
    if let Err(e) = fill(&db, 1, 30) {
        out.violation = Some(format!("prelude: {e}"));
        return out;
    }
    let read_tag = |db: &redb::Database| -> Result<u8, String> {
        let rt = db.begin_read().map_err(|e| format!("begin_read: {e}"))?;
        let t = rt.open_table(QT).map_err(|e| format!("open_table: {e}"))?;
        let mut tag = None;
        let mut n = 0;
        for e in redb::ReadableTable::iter(&t).map_err(|e| e.to_string())? {
            let (k, v) = e.map_err(|e| e.to_string())?;
            let v = v.value();
            if v.is_empty() || v.iter().any(|b| *b != v[0]) || v.len() != 40 + (k.value() as usize * 37) % 700 {
                return Err(format!("key {} has a value no commit wrote", k.value()));
            }
            match tag {
                None => tag = Some(v[0]),
                Some(t) if t != v[0] => return Err("a reader sees a mixture of two commits".into()),
                _ => {}
            }
            n += 1;
        }
        if n != 30 {
            return Err(format!("{n} of 30 keys present"));
        }
        Ok(tag.unwrap())
    };
    let kind = *rng.pick(&[K_SYNC, K_WRITE, K_ANY, K_SETLEN, K_WRITE]);
    let at = rng.below(4);
    let permanent = rng.bool();
    let b_waiting = AtomicBool::new(false);
    let a_ready = AtomicBool::new(false);
    let a_result: std::sync::Mutex<Option<Result<(), String>>> = std::sync::Mutex::new(None);
    let b_result: std::sync::Mutex<Option<String>> = std::sync::Mutex::new(None);
    std::thread::scope(|s| {
        let (db_a, db_b) = (db.clone(), db.clone());
        let (be_a, a_ready, b_waiting, a_result, b_result) = (be.clone(), &a_ready, &b_waiting, &a_result, &b_result);
        s.spawn(move || {
            let r = guarded(|| -> Result<(), String> {
                let txn = db_a.begin_write().map_err(|e| e.to_string())?;
                {
                    let mut t = txn.open_table(QT).map_err(|e| e.to_string())?;
                    for i in 0..30u64 {
                        t.insert(i, vec![2u8; 40 + (i as usize * 37) % 700].as_slice()).map_err(|e| e.to_string())?;
                    }
                }
                a_ready.store(true, Ordering::SeqCst);
                // let B reach the wait for the write slot
                let t0 = std::time::Instant::now();
                while !b_waiting.load(Ordering::SeqCst) && t0.elapsed() < std::time::Duration::from_secs(5) {
                    std::thread::yield_now();
                }
                std::thread::sleep(std::time::Duration::from_millis(15));
                be_a.set_fault(Fault::new(at, kind, permanent));
                txn.commit().map_err(|e| format!("commit: {e}"))
            });
            *a_result.lock().unwrap() = Some(match r {
                Ok(r) => r,
                Err(p) => Err(format!("PANIC {}", p.short())),
            });
        });
        s.spawn(move || {
            while !a_ready.load(Ordering::SeqCst) {
                std::thread::yield_now();
            }
            b_waiting.store(true, Ordering::SeqCst);
            let r = guarded(|| -> String {
                match db_b.begin_write() {
                    Err(e) => format!("refused: {e}"),
                    Ok(txn) => {
                        // handed a transaction: what happens when it is used?
                        let used = guarded(|| -> Result<(), String> {
                            {
                                let mut t = txn.open_table(QT).map_err(|e| e.to_string())?;
                                for i in 0..30u64 {
                                    t.insert(i, vec![3u8; 40 + (i as usize * 37) % 700].as_slice()).map_err(|e| e.to_string())?;
                                }
                            }
                            txn.commit().map_err(|e| e.to_string())
                        });
                        match used {
                            Ok(Ok(())) => "admitted: committed".into(),
                            Ok(Err(e)) => format!("admitted: then failed with {e}"),
                            Err(p) => format!("admitted: PANIC {}", p.short()),
                        }
                    }
                }
            });
            *b_result.lock().unwrap() = Some(match r {
                Ok(s) => s,
                Err(p) => format!("PANIC in begin_write: {}", p.short()),
            });
        });
    });
    out.fired = be.lock().fault.fired > 0;
    be.clear_fault();
    let a = a_result.into_inner().unwrap().unwrap_or(Err("writer A did not finish".into()));
    let b = b_result.into_inner().unwrap().unwrap_or_default();
    out.commit_failed = a.is_err();
    out.queued_refused = b.starts_with("refused");
    let what = format!("{} failure of {} call #{at} during writer A's commit (A: {a:?}; queued writer B: {b})", if permanent { "permanent" } else { "one-shot" }, kind_name(kind));
    if let Err(e) = &a {
        if e.starts_with("PANIC") {
            out.violation = Some(format!("{what}: the failing commit panicked"));
        }
    }
    if out.violation.is_none() && b.contains("PANIC") {
        out.violation = Some(format!("{what}: the write transaction handed out after the failure panicked"));
    }
    if out.violation.is_none() && out.fired && out.commit_failed && b.starts_with("admitted") {
        out.violation = Some(format!("{what}: begin_write(), which was waiting for the write slot, handed out a transaction after the storage failure had been reported"));
    }
    // reads: an error, or exactly one of the states that were requested
    if out.violation.is_none() {
        match guarded(|| read_tag(&db)) {
            Ok(Ok(t)) => {
                // a commit that reported a failure may have taken effect entirely or not at all
                let ok = t == 1 || t == 2 || (t == 3 && b.starts_with("admitted") && !b.contains("PANIC"));
                if !ok {
                    out.violation = Some(format!("{what}: a later reader sees state {t}"));
                }
            }
            Ok(Err(e)) if e.starts_with("begin_read") || e.starts_with("open_table") || e.contains("I/O") || e.contains("injected") || e.contains("Previous") => {}
            Ok(Err(e)) => out.violation = Some(format!("{what}: a later reader: {e}")),
            Err(p) => out.violation = Some(format!("{what}: a later reader panicked: {}", p.short())),
        }
    }
    drop(db);
    if out.violation.is_none() {
        let st = be.lock();
        if let Some(v) = st.violations.first() {
            out.violation = Some(format!("{what}: backend contract: {v}"));
        } else if st.counts.close != 1 {
            out.violation = Some(format!("{what}: close() called {} times", st.counts.close));
        }
    }
    if out.violation.is_none() {
        let be2 = MonBackend::from_image(be.image());
        match guarded(|| cfg.builder().create_with_backend(be2)) {
            Ok(Ok(mut db2)) => {
                match read_tag(&db2) {
                    Ok(t) if t == 1 || t == 2 || (t == 3 && b.starts_with("admitted")) => {}
                    Ok(t) => out.violation = Some(format!("{what}: after reopening the storage shows state {t}")),
                    Err(e) => out.violation = Some(format!("{what}: after reopening: {e}")),
                }
                if out.violation.is_none() {
                    match guarded(|| db2.check_integrity()) {
                        Ok(Ok(_)) => {}
                        Ok(Err(e)) => out.violation = Some(format!("{what}: check_integrity after reopening: {e}")),
                        Err(p) => out.violation = Some(format!("{what}: check_integrity after reopening panicked: {}", p.short())),
                    }
                }
            }
            Ok(Err(e)) => out.violation = Some(format!("{what}: the storage left behind cannot be reopened: {e}")),
            Err(p) => out.violation = Some(format!("{what}: reopening panicked: {}", p.short())),
        }
    }
    out
}

pub fn run(rep: &Report) {
    rep.set_rule(
        "case = (history, k, call kind, one-shot|permanent): the history is first run fault-free to count its backend calls N (after database creation), then re-run with the k-th call of the chosen kind (any/read/write/set_len/sync_data/len) failing; operations continue until one reports an error. Judged: no panic out of any redb call; no wrong result; after a reported I/O error begin_write (or the commit of a transaction it hands out) is refused; reads after the failure return an error or exactly a committed state between the last successful and the last requested commit; the database is dropped and the surviving storage -- as left, and under crash subsets of its unsynced tail -- is reopened without the fault: it must open, equal one commit point no older than the last acknowledged durable commit (the failed commit entirely or not at all), pass check_integrity, decode under the independent format decoder. quick samples k; thorough enumerates every k for part of the histories. distinct_nontrivial = distinct (history, k, kind, permanence) cases in which the fault actually fired",
    );
    rep.assume("a failing call has no effect on the storage; best-effort write-back may legitimately swallow a failed write, so an error is not demanded from every injected failure");
    let (n_hist, per_hist, exhaustive_hists) = match rep.tier {
        Tier::Quick => (24u64, 40u64, 0u64),
        Tier::Thorough => (300u64, 120u64, 30u64),
    };
    // fault-free probe of every history
    let probes: Vec<u64> = if rep.replay_only.is_some() {
        (0..n_hist).map(|h| run_faulted(rep.seed, h, None, false).calls).collect()
    } else {
        let v = std::sync::Mutex::new(vec![0u64; n_hist as usize]);
        run_cases(
            rep,
            n_hist,
            |h| {
                let o = run_faulted(rep.seed, h, None, false);
                if let Some(e) = &o.violation {
                    rep.violation(
                        format!("fault-free:{}", short_sig(e)),
                        format!("history {h} without any fault: {e}"),
                        json!({"check": "C08", "seed": rep.seed, "case": h, "tier": rep.tier.name(), "fault": null}),
                    );
                }
                v.lock().unwrap()[h as usize] = o.calls;
                rep.count("histories_probed", 1);
                rep.count("backend_calls_in_fault_free_runs", o.calls);
            },
            |h, p| rep.machinery(format!("probe of history {h}: {}", p.short())),
        );
        v.into_inner().unwrap()
    };
    if rep.replay_only.is_some() {
        // replay of a specific faulted case
        let r = rep.replay_only.clone().unwrap();
        if let Some(f) = r.get("fault").filter(|f| !f.is_null()) {
            let spec = FaultSpec {
                k: f["k"].as_u64().unwrap_or(0),
                mask: f["mask"].as_u64().unwrap_or(31) as u8,
                permanent: f["permanent"].as_bool().unwrap_or(false),
            };
            let h = r["case"].as_u64().unwrap_or(0);
            let o = run_faulted(rep.seed, h, Some(spec), true);
            if let Some(e) = &o.violation {
                rep.violation(format!("fault:{}", short_sig(e)), format!("history {h} {spec:?}: {e}; trace tail {:?}", tail(&o.trace)), r.clone());
            }
            rep.eval(1);
            return;
        }
        if r.get("case_index").is_none() {
            return;
        }
        // replay by index into the case list (abort triage): falls through to run_cases below,
        // which runs exactly r["case"]
    }
    // build the list of faulted cases
    let mut cases: Vec<(u64, FaultSpec)> = vec![];
    for h in 0..n_hist {
        let n = probes[h as usize].max(1);
        let mut r = Rng::for_case(rep.seed, "C08plan", h);
        if h < exhaustive_hists {
            for k in 0..n {
                cases.push((h, FaultSpec { k, mask: K_ANY, permanent: k % 2 == 0 }));
            }
        }
        for _ in 0..per_hist {
            let mask = *r.pick(&[K_ANY, K_ANY, K_ANY, K_WRITE, K_WRITE, K_SYNC, K_SYNC, K_READ, K_SETLEN, K_LEN]);
            // k among the calls of that kind: scale by a rough share; overshoot is harmless (no fire)
            let share = match mask {
                K_ANY => n,
                K_WRITE => n / 2,
                K_READ => n / 3,
                K_SYNC => n / 10,
                _ => n / 20,
            }
            .max(1);
            cases.push((h, FaultSpec { k: r.below(share), mask, permanent: r.bool() }));
        }
    }
    rep.extra("exhaustive_histories", json!(exhaustive_hists));
    let n_queued = match rep.tier {
        Tier::Quick => 240u64,
        Tier::Thorough => 6_000u64,
    };
    run_cases(
        rep,
        cases.len() as u64 + n_queued,
        |i| {
            if i >= cases.len() as u64 {
                let q = i - cases.len() as u64;
                let o = queued_writer_case(rep.seed, q);
                rep.eval(1);
                rep.count("queued_writer.cases", 1);
                if o.fired && o.commit_failed {
                    rep.count("queued_writer.commit_failed_while_a_writer_was_queued", 1);
                    rep.distinct(mix(0xC08, q));
                    if o.queued_refused {
                        rep.count("queued_writer.queued_begin_write_refused", 1);
                    }
                }
                if let Some(e) = o.violation {
                    rep.violation(
                        format!("queued:{}", short_sig(&e)),
                        format!("queued-writer case {q}: {e}"),
                        json!({"check": "C08", "seed": rep.seed, "case": i, "case_index": i, "tier": rep.tier.name()}),
                    );
                }
                return;
            }
            let (h, spec) = cases[i as usize];
            let replay = json!({"check": "C08", "seed": rep.seed, "case": h, "tier": rep.tier.name(),
                "fault": {"k": spec.k, "mask": spec.mask, "permanent": spec.permanent}});
            let o = run_faulted(rep.seed, h, Some(spec), rep.want_sample());
            rep.eval(1);
            rep.count("images_reopened", o.images);
            if o.fired > 0 {
                rep.distinct(mix(mix(h, spec.k), u64::from(spec.mask) << 1 | u64::from(spec.permanent)));
                rep.count(&format!("fired.{}", kind_name(spec.mask)), 1);
                rep.count(if spec.permanent { "fired.permanent" } else { "fired.one_shot" }, 1);
                if o.reported_error.is_some() {
                    rep.count("fault_reported_as_error", 1);
                    rep.count(&format!("error_site.{}", o.error_site), 1);
                    if o.writes_refused {
                        rep.count("writes_refused_after_error", 1);
                    }
                    rep.count("reads_after_fault.correct", o.reads_after_fault);
                    rep.count("reads_after_fault.error", o.read_errors_after_fault);
                } else {
                    rep.count("fault_swallowed_or_after_last_step", 1);
                }
            } else {
                rep.count("fault_never_reached", 1);
            }
            if let Some(e) = &o.violation {
                rep.violation(
                    format!("fault:{}", short_sig(e)),
                    format!(
                        "history {h}, {} failure of {} call #{}: {e}; reported error: {:?}; trace tail {:?}",
                        if spec.permanent { "permanent" } else { "one-shot" },
                        kind_name(spec.mask),
                        spec.k,
                        o.reported_error,
                        tail(&o.trace)
                    ),
                    replay,
                );
            } else if rep.want_sample() && o.fired > 0 {
                rep.sample(json!({"history": h, "fault": format!("{} call #{} {}", kind_name(spec.mask), spec.k, if spec.permanent {"permanent"} else {"one-shot"}),
                    "steps_completed": o.steps, "reported_error": o.reported_error, "writes_refused": o.writes_refused,
                    "storage_images_reopened": o.images, "trace_head": o.trace.as_ref().map(|t| t.iter().take(15).cloned().collect::<Vec<_>>())}));
            }
        },
        |i, p| {
            let (h, spec) = cases[i as usize];
            rep.violation(
                format!("panic:{}", p.location),
                format!("history {h} {spec:?}: {}", p.short()),
                json!({"check": "C08", "seed": rep.seed, "case": h, "tier": rep.tier.name(),
                    "fault": {"k": spec.k, "mask": spec.mask, "permanent": spec.permanent}}),
            );
        },
    );
}
