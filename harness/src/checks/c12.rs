//! C12 -- check_integrity never certifies a damaged database (alterations of closed files, run in
//! worker subprocesses because a corrupted file may abort the process).

use crate::backend::MonBackend;
use crate::checks::c01::short_sig;
use crate::fmt::check_image;
use crate::model::*;
use crate::ops::*;
use crate::report::{Report, Tier, guarded};
use crate::rng::{Rng, mix};
use crate::world::*;
use serde_json::{Value, json};
use std::collections::BTreeMap;
use std::io::Write;
use std::sync::Arc;
use std::sync::atomic::{AtomicU64, Ordering};

#[derive(Clone, Debug)]
pub enum Alt {
    Bit { off: usize, bit: u8 },
    Byte { off: usize, val: u8 },
    Run { off: usize, len: usize, mode: u8, seed: u64 },
    Swap { a: usize, b: usize, len: usize },
}

impl Alt {
    fn apply(&self, img: &mut [u8]) {
        match self {
            Alt::Bit { off, bit } => img[*off] ^= 1 << bit,
            Alt::Byte { off, val } => img[*off] = *val,
            Alt::Run { off, len, mode, seed } => {
                let mut r = Rng::new(*seed);
                match mode {
                    0 => img[*off..*off + *len].fill(0),
                    1 => {
                        let b = r.bytes(*len);
                        img[*off..*off + *len].copy_from_slice(&b);
                    }
                    _ => {
                        // copy of another offset of the image
                        let src = r.usize(img.len() - *len);
                        let tmp = img[src..src + *len].to_vec();
                        img[*off..*off + *len].copy_from_slice(&tmp);
                    }
                }
            }
            Alt::Swap { a, b, len } => {
                let x = img[*a..*a + *len].to_vec();
                let y = img[*b..*b + *len].to_vec();
                img[*a..*a + *len].copy_from_slice(&y);
                img[*b..*b + *len].copy_from_slice(&x);
            }
        }
    }
    fn describe(&self) -> String {
        match self {
            Alt::Bit { off, bit } => format!("flip bit {bit} of byte {off}"),
            Alt::Byte { off, val } => format!("set byte {off} to {val:#04x}"),
            Alt::Run { off, len, mode, .. } => format!(
                "overwrite {len} bytes at {off} with {}",
                ["zeros", "random bytes", "bytes copied from elsewhere"][*mode as usize % 3]
            ),
            Alt::Swap { a, b, len } => format!("swap the {len}-byte pages at {a} and {b}"),
        }
    }
    fn class(&self, base: &Base) -> &'static str {
        let off = match self {
            Alt::Bit { off, .. } | Alt::Byte { off, .. } | Alt::Run { off, .. } => *off,
            Alt::Swap { .. } => return "page-swap",
        };
        if off < 320 {
            "header"
        } else if base.used.iter().any(|(s, e)| off >= *s && off < *e) {
            "used-page-bytes"
        } else {
            "free-or-slack"
        }
    }
}

pub struct Base {
    pub cfg: Cfg,
    pub image: Vec<u8>,
    pub points: Vec<(Arc<Contents>, Vec<u64>)>,
    /// byte ranges covered by checksums (used part of every reachable page)
    pub used: Vec<(usize, usize)>,
    pub pages: Vec<(usize, usize)>,
    pub alts: Vec<Alt>,
    pub crash_recovered: bool,
}

fn build_base(seed: u64, id: u64, tier: Tier) -> Result<Base, String> {
    let mut rng = Rng::for_case(seed, "C12base", id);
    let cfg = Cfg {
        page_size: if id % 2 == 0 { 512 } else { 4096 },
        region_pages: *rng.pick(&[Some(32u64), Some(64)]),
        cache: 1 << 20,
    };
    let mut opts = Opts::default();
    opts.max_ops = 14;
    opts.keyspace = 24;
    let mut w = World::create(cfg.clone(), opts, rng).map_err(|e| e.text().to_string())?;
    let crash_recovered = id % 4 == 3;
    for _ in 0..w.rng.range(4, 9) {
        let mut p = w.plan();
        if w.rng.chance(2, 3) {
            p.end = End::Commit;
        }
        w.run_txn(&p).map_err(|e| e.text().to_string())?;
    }
    if crash_recovered {
        // the unclean image, recovered once and then closed cleanly
        let mut p = w.plan();
        p.durable = true;
        p.end = End::Commit;
        p.restore = None;
        w.run_txn(&p).map_err(|e| e.text().to_string())?;
        let img = w.be.image();
        let idx = w.commits.len() - 1;
        w.adopt_image(img, idx).map_err(|e| e.text().to_string())?;
    }
    w.close();
    let image = w.be.image();
    let (forest, dec) = check_image(&image, false)?;
    let mut pages = vec![];
    for p in forest.data_pages.iter().chain(forest.system_pages.iter()) {
        let (s, e) = dec.layout.range(*p)?;
        pages.push((s as usize, e as usize));
    }
    pages.sort_unstable();
    // every committed state this history went through is an acceptable "one commit point"
    let mut points: Vec<(Arc<Contents>, Vec<u64>)> = vec![];
    for c in &w.commits {
        let ids: Vec<u64> = c.psp.keys().copied().collect();
        if !points.iter().any(|(pc, pi)| **pc == *c.contents && *pi == ids) {
            points.push((c.contents.clone(), ids));
        }
    }
    let used = pages.clone();
    let mut alts = vec![];
    let mut r = Rng::for_case(seed, "C12alts", id);
    // header: every bit (thorough) or every bit of the live fields + a sample (quick)
    for off in 0..320usize {
        for bit in 0..8u8 {
            if tier == Tier::Thorough || off < 32 || r.chance(1, 4) {
                alts.push(Alt::Bit { off, bit });
            }
        }
    }
    let stride = if tier == Tier::Thorough { 1 } else { 9 };
    for (s, e) in &pages {
        let mut off = *s + r.usize(stride);
        while off < *e {
            alts.push(Alt::Bit { off, bit: (r.next() % 8) as u8 });
            if tier == Tier::Thorough || r.chance(1, 3) {
                alts.push(Alt::Byte { off, val: 0x00 });
                alts.push(Alt::Byte { off, val: 0xFF });
            }
            off += stride;
        }
        for _ in 0..if tier == Tier::Thorough { 12 } else { 2 } {
            let len = r.range(2, 64) as usize;
            let off = *s + r.usize((e - s).saturating_sub(len).max(1));
            alts.push(Alt::Run { off, len, mode: (r.next() % 3) as u8, seed: r.next() });
        }
    }
    // page swaps among order-0 pages
    let ps = cfg.page_size;
    let small: Vec<usize> = pages.iter().filter(|(s, e)| e - s == ps).map(|(s, _)| *s).collect();
    let max_swaps = if tier == Tier::Thorough { 400 } else { 30 };
    let mut n = 0;
    'outer: for i in 0..small.len() {
        for j in (i + 1)..small.len() {
            if small.len() > 40 && !r.chance(1, (small.len() * small.len() / (2 * max_swaps)).max(1) as u64) {
                continue;
            }
            alts.push(Alt::Swap { a: small[i], b: small[j], len: ps });
            n += 1;
            if n >= max_swaps {
                break 'outer;
            }
        }
    }
    // free pages and slack: a sample (there Ok(true) with intact contents is the expected outcome)
    let total = image.len();
    for _ in 0..(total / 200).clamp(20, 600) {
        let off = 320 + r.usize(total - 320);
        if !pages.iter().any(|(s, e)| off >= *s && off < *e) {
            alts.push(Alt::Byte { off, val: r.next() as u8 | 1 });
        }
    }
    Ok(Base { cfg, image, points, used, pages, alts, crash_recovered })
}

#[derive(Default)]
struct Verdict {
    class: String,
    violation: Option<String>,
    panic: Option<String>,
}

fn matches_point(base: &Base, c: &Contents, psp: &[u64]) -> bool {
    base.points.iter().any(|(pc, pi)| **pc == *c && pi == psp)
}

fn judge(base: &Base, alt: &Alt) -> Verdict {
    let mut img = base.image.clone();
    alt.apply(&mut img);
    if img == base.image {
        return Verdict { class: "no-op".into(), ..Default::default() };
    }
    let be = MonBackend::from_image(img);
    be.lock().judge_bounds = false;
    let cfg = base.cfg.clone();
    let be2 = be.clone();
    let opened = guarded(move || cfg.builder().create_with_backend(be2));
    let mut db = match opened {
        Err(p) => {
            return Verdict { class: "panic-in-open".into(), panic: Some(p.short()), ..Default::default() };
        }
        Ok(Err(_)) => return Verdict { class: "open-refused".into(), ..Default::default() },
        Ok(Ok(db)) => db,
    };
    let first = guarded(|| db.check_integrity());
    let serve = |db: &redb::Database| -> Result<(Contents, Vec<u64>), String> {
        let r = guarded(|| -> R<(Contents, Vec<u64>)> {
            let c = dump_db(db)?;
            let txn = db.begin_write().map_err(se("begin_write"))?;
            let ids: Vec<u64> = list_psp(&txn)?.into_iter().collect();
            txn.abort().map_err(se("abort"))?;
            Ok((c, ids))
        });
        match r {
            Err(p) => Err(format!("reading panicked: {}", p.short())),
            Ok(Err(f)) => Err(format!("reading failed: {}", f.text())),
            Ok(Ok(x)) => Ok(x),
        }
    };
    match first {
        Err(p) => Verdict { class: "panic-in-check".into(), panic: Some(p.short()), ..Default::default() },
        Ok(Err(_)) => Verdict { class: "check-reported-error".into(), ..Default::default() },
        Ok(Ok(true)) => match serve(&db) {
            Ok((c, ids)) => {
                if matches_point(base, &c, &ids) {
                    Verdict { class: "certified-clean-and-intact".into(), ..Default::default() }
                } else {
                    let d = diff_contents(&base.points.last().unwrap().0, &c).unwrap_or_else(|| format!("savepoints {ids:?}"));
                    Verdict {
                        class: "certified-damaged".into(),
                        violation: Some(format!("check_integrity() returned Ok(true) but the contents then served match no commit point of the history (vs the final state: {d})")),
                        ..Default::default()
                    }
                }
            }
            Err(e) => Verdict {
                class: "certified-unreadable".into(),
                violation: Some(format!("check_integrity() returned Ok(true) but {e}")),
                ..Default::default()
            },
        },
        Ok(Ok(false)) => {
            let served = serve(&db);
            let second = guarded(|| db.check_integrity());
            match served {
                Ok((c, ids)) => {
                    if !matches_point(base, &c, &ids) {
                        let d = diff_contents(&base.points.last().unwrap().0, &c).unwrap_or_else(|| format!("savepoints {ids:?}"));
                        return Verdict {
                            class: "repaired-to-damaged".into(),
                            violation: Some(format!("check_integrity() reported a repair (Ok(false)) but the database then holds a state that was never committed (vs the final state: {d})")),
                            ..Default::default()
                        };
                    }
                }
                Err(e) => {
                    return Verdict {
                        class: "repaired-unreadable".into(),
                        violation: Some(format!("check_integrity() reported a repair (Ok(false)) but {e}")),
                        ..Default::default()
                    };
                }
            }
            match second {
                Ok(Ok(true)) => Verdict { class: "repaired-to-commit-point".into(), ..Default::default() },
                Ok(Ok(false)) => Verdict {
                    class: "repaired-twice".into(),
                    violation: Some("after a reported repair a second check_integrity() returned Ok(false) again".into()),
                    ..Default::default()
                },
                Ok(Err(e)) => Verdict {
                    class: "repaired-then-error".into(),
                    violation: Some(format!("after a reported repair a second check_integrity() failed: {e}")),
                    ..Default::default()
                },
                Err(p) => Verdict { class: "panic-in-second-check".into(), panic: Some(p.short()), ..Default::default() },
            }
        }
    }
}

const STRIDE: u64 = 10_000_000;

fn bases_for(tier: Tier) -> u64 {
    match tier {
        Tier::Quick => 8,
        Tier::Thorough => 32,
    }
}

/// worker: process alteration indices [from, to) of base `id`, one JSON line each
fn worker(seed: u64, tier: Tier, spec: &str) {
    let parts: Vec<&str> = spec.split(',').collect();
    let id: u64 = parts[0].parse().unwrap();
    let from: usize = parts[1].parse().unwrap();
    let to: usize = parts[2].parse().unwrap();
    let path = parts[3];
    let base = build_base(seed, id, tier).expect("base");
    let mut out = std::fs::OpenOptions::new().create(true).append(true).open(path).expect("out");
    for i in from..to.min(base.alts.len()) {
        std::fs::write(format!("{path}.cur"), i.to_string()).ok();
        let alt = &base.alts[i];
        let v = judge(&base, alt);
        let line = json!({"i": i, "class": v.class, "region": alt.class(&base), "viol": v.violation, "panic": v.panic, "alt": alt.describe()});
        writeln!(out, "{line}").ok();
    }
    out.flush().ok();
}

pub fn run(rep: &Report) {
    if let Ok(spec) = std::env::var("RV_C12_WORKER") {
        worker(rep.seed, rep.tier, &spec);
        std::process::exit(0);
    }
    rep.set_rule(
        "case = (closed database image, alteration). Images: files left by generated histories at 512-byte and 4 KiB pages with normal, multimap and all system tables, cleanly closed, some recovered from a crash first. Alterations: bits of the 320 header bytes (all in thorough; the live fields plus a sample in quick), for every page reachable from the committed roots byte positions x {one bit, 0x00, 0xFF} (every position in thorough, every 9th in quick), runs of 2-64 bytes (zeros / random / copied from elsewhere), swaps of two pages, and a sample of bytes in free pages and slack. Each altered image is opened and check_integrity() is called in a worker subprocess: Ok(true) requires that the full contents and persistent savepoints then served equal one commit point of the history; Ok(false) requires the same plus Ok(true) from a second check; Err from open or check is fine. Panics/aborts are counted, not judged. evaluations = alterations judged; distinct_nontrivial = distinct (image, alteration) pairs that changed bytes covered by a checksum or the header and were reported or repaired",
    );
    rep.assume("an abort of the worker process (stack overflow, allocation failure) on a corrupted file is recorded, not judged: the property speaks about what check_integrity() returns");
    let nb = bases_for(rep.tier);
    let bases: Vec<Base> = (0..nb).filter_map(|id| build_base(rep.seed, id, rep.tier).ok()).collect();
    if bases.len() as u64 != nb {
        rep.machinery("could not build every base image");
        return;
    }
    if let Some(r) = &rep.replay_only {
        let id = r["base"].as_u64().unwrap_or(0);
        let i = r["alt"].as_u64().unwrap_or(0) as usize;
        let base = &bases[id as usize];
        let v = judge(base, &base.alts[i]);
        rep.eval(1);
        if let Some(e) = v.violation {
            rep.violation(format!("integrity:{}", short_sig(&e)), format!("image {id} ({:?}), {}: {e}", base.cfg, base.alts[i].describe()), r.clone());
        }
        eprintln!("replay: class {} panic {:?}", v.class, v.panic);
        return;
    }
    let exe = std::env::current_exe().expect("current exe");
    let tmp = std::path::Path::new("/verif/target/c12");
    std::fs::create_dir_all(tmp).ok();
    // shards
    let chunk = 1500usize;
    let mut shards: Vec<(u64, usize, usize)> = vec![];
    for (id, b) in bases.iter().enumerate() {
        let mut f = 0;
        while f < b.alts.len() {
            shards.push((id as u64, f, (f + chunk).min(b.alts.len())));
            f += chunk;
        }
    }
    rep.count("images", nb);
    rep.count("images.crash_recovered_first", bases.iter().filter(|b| b.crash_recovered).count() as u64);
    let next = AtomicU64::new(0);
    let aborted = std::sync::Mutex::new(Vec::<String>::new());
    let panics = std::sync::Mutex::new(BTreeMap::<String, u64>::new());
    std::thread::scope(|s| {
        for _ in 0..rep.jobs.max(1) {
            s.spawn(|| loop {
                let k = next.fetch_add(1, Ordering::Relaxed) as usize;
                if k >= shards.len() || rep.out_of_time() {
                    break;
                }
                let (id, mut from, to) = shards[k];
                let path = tmp.join(format!("shard-{}-{}-{}.jsonl", std::process::id(), id, from));
                let _ = std::fs::remove_file(&path);
                while from < to {
                    let spec = format!("{id},{from},{to},{}", path.display());
                    let st = std::process::Command::new(&exe)
                        .args(["C12", "--tier", rep.tier.name(), "--seed", &rep.seed.to_string()])
                        .env("RV_C12_WORKER", &spec)
                        .stdout(std::process::Stdio::null())
                        .stderr(std::process::Stdio::null())
                        .status();
                    let ok = matches!(&st, Ok(s) if s.success());
                    if ok {
                        break;
                    }
                    // the worker died: the case in flight aborted the process
                    let cur: usize = std::fs::read_to_string(format!("{}.cur", path.display()))
                        .ok()
                        .and_then(|s| s.trim().parse().ok())
                        .unwrap_or(from);
                    let b = &bases[id as usize];
                    aborted.lock().unwrap().push(format!("image {id}: {} -> worker {:?}", b.alts.get(cur).map(Alt::describe).unwrap_or_default(), st.map(|s| s.to_string())));
                    rep.count("worker_aborts (recorded, not judged)", 1);
                    from = cur + 1;
                }
                // collect
                if let Ok(txt) = std::fs::read_to_string(&path) {
                    for line in txt.lines() {
                        let Ok(v) = serde_json::from_str::<Value>(line) else { continue };
                        let i = v["i"].as_u64().unwrap_or(0);
                        let class = v["class"].as_str().unwrap_or("?").to_string();
                        let region = v["region"].as_str().unwrap_or("?").to_string();
                        rep.eval(1);
                        rep.count(&format!("outcome.{class}"), 1);
                        rep.count(&format!("altered.{region}"), 1);
                        rep.count(&format!("{region} -> {class}"), 1);
                        if let Some(p) = v["panic"].as_str() {
                            *panics.lock().unwrap().entry(short_sig(p)).or_insert(0) += 1;
                        }
                        if region != "free-or-slack" && (class.starts_with("repaired") || class.contains("refused") || class.contains("error")) {
                            rep.distinct(mix(id, i));
                        }
                        if let Some(e) = v["viol"].as_str() {
                            let b = &bases[id as usize];
                            rep.violation(
                                format!("integrity:{}", short_sig(e)),
                                format!("image {id} (cfg {:?}, {} bytes), {}: {e}", b.cfg, b.image.len(), v["alt"].as_str().unwrap_or("")),
                                json!({"check": "C12", "seed": rep.seed, "tier": rep.tier.name(), "base": id, "alt": i, "case": 0}),
                            );
                        } else if rep.want_sample() && class != "no-op" {
                            rep.sample(json!({"image": id, "page_size": bases[id as usize].cfg.page_size, "alteration": v["alt"], "bytes_altered_in": region, "outcome": class}));
                        }
                    }
                }
                let _ = std::fs::remove_file(&path);
                let _ = std::fs::remove_file(format!("{}.cur", path.display()));
            });
        }
    });
    let ab = aborted.into_inner().unwrap();
    rep.extra("worker_aborts", json!(ab.iter().take(20).collect::<Vec<_>>()));
    rep.extra("panics_instead_of_results (recorded, not judged)", json!(panics.into_inner().unwrap()));
}
