//! C01 -- commits are atomic and durable across crashes (fault_enumeration over crash images).

use crate::crash::{CrashBudget, Enumerator};
use crate::ops::Fail;
use crate::recover::{RecCtx, RecStats};
use crate::report::{Report, Tier, run_cases};
use crate::rng::Rng;
use crate::world::*;
use serde_json::json;

pub struct HistOut {
    pub world: World,
    pub api_error: Option<Fail>,
    pub steps: usize,
}

/// Run one crash-oriented history: transactions of every flavour, with occasional reopen,
/// compaction and integrity checks, recording the storage-operation stream.
pub fn history(seed: u64, check: &str, case: u64, opts: Opts, trace: bool, max_steps: usize) -> Result<HistOut, String> {
    let mut rng = Rng::for_case(seed, check, case);
    let cfg = Cfg::pick(&mut rng);
    let steps = rng.range(4, max_steps as u64) as usize;
    let mut w = World::create(cfg, opts, rng).map_err(|e| format!("create: {}", e.text()))?;
    if trace {
        w.trace = Some(vec![]);
    }
    w.be.start_recording();
    w.be.set_sync_hook(crate::fmt::sync_hook(false));
    let mut api_error = None;
    let mut done = 0;
    for _ in 0..steps {
        let roll = w.rng.below(100);
        let r = match roll {
            0..=3 => w.reopen(),
            4..=6 => w.compact(),
            7..=8 => w.check_integrity(),
            9..=14 => {
                w.drop_random_esp();
                Ok(())
            }
            19..=20 if w.opts.panics => w.panic_txn(),
            15..=18 => {
                if w.readers.len() < 3 {
                    w.open_reader()
                } else {
                    w.drop_random_reader();
                    Ok(())
                }
            }
            _ => {
                let plan = w.plan();
                w.run_txn(&plan).map(|_| ())
            }
        };
        if let Err(e) = r {
            api_error = Some(e);
            break;
        }
        done += 1;
    }
    Ok(HistOut {
        world: w,
        api_error,
        steps: done,
    })
}

pub fn run(rep: &Report) {
    rep.set_rule(
        "case = one generated history (write transactions with Durability None/Immediate, 1PC/2PC/quick-repair, savepoints, compaction, check_integrity, clean reopen) on a recording backend; evaluations = crash images reconstructed from its storage-operation log (durable image at the last completed sync + a subset of the writes/set_lens issued since, last write possibly torn) and crashes during the recovery of those images; each image is reopened, fully read, matched against the commit points admissible at that log position, integrity-checked, decoded by the independent format decoder. distinct_nontrivial = distinct (crash position, applied subset, tear, recovered commit point) signatures whose window held at least one unsynced operation",
    );
    rep.assume("crash model of docs/design.md: sync_data makes earlier writes durable, unsynced writes are independently dropped/applied/torn at byte granularity, powersafe overwrite, set_len persisted or not");
    rep.assume("subsets of windows with more pending operations than exhaustive_w are sampled, tearing is sampled");
    let (n_cases, budget, depth, max_steps, rec_every, rec_cap) = match rep.tier {
        Tier::Quick => (16u64, CrashBudget::quick(), 1u32, 12usize, 23u64, 10usize),
        Tier::Thorough => (160u64, CrashBudget::thorough(), 2u32, 30usize, 7u64, 24usize),
    };
    rep.extra("budget", json!(format!("{budget:?}")));
    run_cases(
        rep,
        n_cases,
        |case| one_case(rep, case, &budget, depth, max_steps, rec_every, rec_cap),
        |case, p| {
            rep.violation(
                format!("panic:{}", p.location),
                format!("case {case}: {}", p.short()),
                json!({"check": "C01", "seed": rep.seed, "case": case, "tier": rep.tier.name()}),
            );
        },
    );
}

fn one_case(rep: &Report, case: u64, budget: &CrashBudget, depth: u32, max_steps: usize, rec_every: u64, rec_cap: usize) {
    let replay = json!({"check": "C01", "seed": rep.seed, "case": case, "tier": rep.tier.name()});
    let trace = rep.replay_only.is_some() || rep.want_sample();
    let mut opts = Opts::default();
    // an application panic caught while a write transaction is live latches a pending repair:
    // a clean close must still persist what was committed (fixed defect, see known_findings.json)
    opts.panics = true;
    let h = match history(rep.seed, "C01", case, opts, trace, max_steps) {
        Ok(h) => h,
        Err(e) => {
            rep.violation("create-failed", format!("case {case}: {e}"), replay);
            return;
        }
    };
    let mut w = h.world;
    if let Some(e) = &h.api_error {
        match e {
            Fail::Oracle(s) => rep.violation(
                format!("history-oracle:{}", short_sig(s)),
                format!("case {case}: during the fault-free history: {s}; trace tail: {:?}", tail(&w.trace)),
                replay.clone(),
            ),
            Fail::Storage(s) => rep.violation(
                format!("history-error:{}", short_sig(s)),
                format!("case {case}: unexpected error in a fault-free history: {s}; trace tail: {:?}", tail(&w.trace)),
                replay.clone(),
            ),
        }
        return;
    }
    // clean close belongs to the stream too
    w.close();
    w.mark_all_durable();
    let viol = std::mem::take(&mut w.be_violations);
    if !viol.is_empty() {
        rep.violation(
            format!("backend:{}", short_sig(&viol[0])),
            format!("case {case}: {}", viol.join("; ")),
            replay.clone(),
        );
        return;
    }
    if let Some(e) = w.sync_errors.first() {
        rep.violation(
            format!("format:{}", short_sig(e)),
            format!("case {case}: {e}; trace tail {:?}", tail(&w.trace)),
            replay.clone(),
        );
        return;
    }
    let (base, log) = {
        let st = w.be.lock();
        (st.base.clone(), st.log.clone())
    };
    rep.merge_counts(&w.counts);
    rep.count("histories", 1);
    rep.count("log_events", log.len() as u64);
    {
        let st = w.be.lock();
        rep.count("cow_guard_evaluations", st.protect_evals);
        rep.count("cow_guard_undecodable_syncs", st.protect_failed_decodes);
    }
    let mut ctx = RecCtx {
        cfg: &w.cfg,
        opts: &w.opts,
        commits: &w.commits,
        seed: rep.seed ^ case,
        stats: RecStats::default(),
        depth,
        deep_every: 16,
        check_m2: true,
        check_integrity: true,
        rec_every,
        rec_cap,
    };
    let mut en = Enumerator::new(&base, &log, budget.clone(), rep.seed ^ (case << 8));
    let mut first_err: Option<(serde_json::Value, String)> = None;
    en.run(0, log.len(), &mut |ci, img| {
        if rep.out_of_time() {
            return false;
        }
        match ctx.check(ci, img, 0) {
            Ok(()) => true,
            Err(e) => {
                first_err = Some((ci.describe(), e));
                false
            }
        }
    });
    rep.eval(ctx.stats.images);
    let s = &ctx.stats;
    rep.distinct_many(s.sigs.iter().copied());
    rep.count("images", s.images);
    rep.count("images.recovered_to_last_durable", s.recovered_to_floor);
    rep.count("images.recovered_to_newer_commit", s.recovered_to_newer);
    rep.count("images.recovered_inflight_commit", s.recovered_to_ceiling_inflight);
    rep.count("images.window_with_choice", s.window_gt1);
    rep.count("images.integrity_checked", s.integrity_checked);
    rep.count("images.format_checked", s.m2_checked);
    rep.count("images.followed_by_transactions", s.deep);
    rep.count("images.savepoints_restored", s.savepoints_restored);
    rep.count("images.crash_during_recovery", s.recursion_images);
    rep.count("images.recovery_wrote", s.repaired_opens);
    rep.count("images.torn", en.torn_images);
    rep.count("windows", en.windows);
    rep.count("windows.exhaustive", en.exhaustive_windows);
    rep.count("windows.sampled", en.sampled_windows);
    rep.count("windows.with_set_len", en.setlen_in_window);
    rep.count_max("max_window", en.max_window as u64);
    if let Some((ci, e)) = first_err {
        rep.violation(
            format!("crash:{}", short_sig(&e)),
            format!(
                "case {case} cfg {:?}: crash image {ci}: {e}; commit points: {:?}; trace tail {:?}",
                w.cfg,
                w.commits.iter().map(|c| format!("seq{} req{} ack{} {}", c.seq, c.req_pos, c.ack_pos as i64, c.desc)).collect::<Vec<_>>(),
                tail(&w.trace)
            ),
            replay,
        );
        return;
    }
    if rep.want_sample() {
        rep.sample(json!({
            "case": case,
            "cfg": w.cfg.json(),
            "steps": h.steps,
            "commit_points": w.commits.len(),
            "log_events": log.len(),
            "crash_images": ctx.stats.images,
            "trace_head": w.trace.as_ref().map(|t| t.iter().take(30).cloned().collect::<Vec<_>>()),
        }));
    }
}

pub fn tail(t: &Option<Vec<String>>) -> Vec<String> {
    match t {
        None => vec![],
        Some(t) => {
            let n = if std::env::var("RV_FULL_TRACE").is_ok() { usize::MAX } else { 25 };
            t.iter().rev().take(n).rev().cloned().collect()
        }
    }
}

/// stable short signature of an error text: strip digits/hex so that known findings match classes
pub fn short_sig(s: &str) -> String {
    let mut out = String::new();
    let mut last_hash = false;
    for c in s.chars().take(160) {
        if c.is_ascii_digit() {
            if !last_hash {
                out.push('#');
                last_hash = true;
            }
        } else {
            out.push(c);
            last_hash = false;
        }
    }
    out
}
