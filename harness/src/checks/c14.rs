//! C14 -- the page allocator never double-allocates and never loses space (buddy allocator and the
//! region level above it), against a shadow bitmap of order-0 pages.

use crate::checks::c01::short_sig;
use crate::fmt::BuddyImage;
use crate::report::{Report, Tier, run_cases};
use crate::rng::{Rng, mix};
use redb::verif::{BuddyHandle, MemHandle};
use serde_json::json;
use std::collections::BTreeMap;

struct Shadow {
    used: Vec<bool>,
    /// live blocks: start page -> order
    live: BTreeMap<u32, u8>,
    max_order: u8,
}

impl Shadow {
    fn len(&self) -> u32 {
        self.used.len() as u32
    }
    fn block_free(&self, idx: u32, order: u8) -> bool {
        let s = (idx as u64) << order;
        let e = s + (1u64 << order);
        if e > self.used.len() as u64 {
            return false;
        }
        self.used[s as usize..e as usize].iter().all(|u| !u)
    }
    fn has_free_block(&self, order: u8) -> bool {
        if order > self.max_order {
            return false;
        }
        let n = self.len() >> order;
        (0..n).any(|i| self.block_free(i, order))
    }
    fn lowest_free_block(&self, order: u8) -> Option<u32> {
        if order > self.max_order {
            return None;
        }
        let n = self.len() >> order;
        (0..n).find(|i| self.block_free(*i, order))
    }
    fn mark(&mut self, idx: u32, order: u8, v: bool) {
        let s = (idx as usize) << order;
        for u in &mut self.used[s..s + (1usize << order)] {
            *u = v;
        }
    }
    fn free_count(&self) -> u32 {
        self.used.iter().filter(|u| !**u).count() as u32
    }
    fn trailing_free(&self) -> u32 {
        self.used.iter().rev().take_while(|u| !**u).count() as u32
    }
}

fn check_views(b: &BuddyHandle, sh: &Shadow, what: &str) -> Result<(), String> {
    if b.len() != sh.len() {
        return Err(format!("{what}: len() = {} but {} pages expected", b.len(), sh.len()));
    }
    if b.count_free_pages() != sh.free_count() {
        return Err(format!(
            "{what}: count_free_pages() = {} but the shadow has {} free pages (space lost or invented)",
            b.count_free_pages(),
            sh.free_count()
        ));
    }
    if b.count_allocated_pages() != sh.len() - sh.free_count() {
        return Err(format!(
            "{what}: count_allocated_pages() = {} but the shadow has {}",
            b.count_allocated_pages(),
            sh.len() - sh.free_count()
        ));
    }
    if sh.len() > 0 && b.trailing_free_pages() != sh.trailing_free() {
        return Err(format!(
            "{what}: trailing_free_pages() = {} but the shadow tail has {} free pages",
            b.trailing_free_pages(),
            sh.trailing_free()
        ));
    }
    // independent decoder over the serialized bytes
    let bytes = b.to_vec();
    let img = BuddyImage::parse(&bytes).ok_or_else(|| format!("{what}: serialized allocator does not parse"))?;
    let alloc = img.allocated_order0();
    for i in 0..sh.len() {
        if alloc.contains(&i) != sh.used[i as usize] {
            return Err(format!(
                "{what}: serialized state says page {i} allocated={} but the shadow says {}",
                alloc.contains(&i),
                sh.used[i as usize]
            ));
        }
    }
    // every order: "can allocate" must equal "an aligned free block exists", probed on a reloaded copy
    for k in 0..=sh.max_order {
        let mut probe = BuddyHandle::from_bytes(&bytes);
        let can = probe.alloc(k).is_some();
        if can != sh.has_free_block(k) {
            return Err(format!(
                "{what}: allocator {} allocate order {k} but the shadow {} an aligned free block of that order",
                if can { "can" } else { "cannot" },
                if sh.has_free_block(k) { "has" } else { "has not" }
            ));
        }
    }
    Ok(())
}

struct Stats {
    ops: u64,
    by_op: BTreeMap<&'static str, u64>,
    refused_full: u64,
    merges: u64,
    lowest_was_lowest: u64,
    lowest_not_lowest: u64,
    reloads: u64,
}

fn buddy_case(rng: &mut Rng, capacity: u32, initial: u32, n_ops: usize, trace: &mut Option<Vec<String>>, st: &mut Stats) -> Result<(), String> {
    let mut b = BuddyHandle::new(initial, capacity);
    let max_order = b.max_order();
    let mut sh = Shadow {
        used: vec![false; initial as usize],
        live: BTreeMap::new(),
        max_order,
    };
    macro_rules! tr {
        ($($a:tt)*) => { if let Some(t) = trace.as_mut() { t.push(format!($($a)*)); } };
    }
    check_views(&b, &sh, "fresh allocator")?;
    // bias: phases that fill up, then drain
    let mut fill_bias = 70u64;
    for step in 0..n_ops {
        if step % 40 == 39 {
            fill_bias = if fill_bias > 50 { 25 } else { 75 };
        }
        st.ops += 1;
        let roll = rng.below(100);
        let order = {
            let r = rng.below(100);
            if r < 50 {
                0
            } else if r < 75 {
                1.min(max_order)
            } else {
                rng.below(u64::from(max_order) + 2) as u8
            }
        };
        if roll < fill_bias * 6 / 10 {
            let lowest = rng.bool();
            let got = if lowest { b.alloc_lowest(order) } else { b.alloc(order) };
            tr!("{}({order}) -> {got:?}", if lowest { "alloc_lowest" } else { "alloc" });
            *st.by_op.entry(if lowest { "alloc_lowest" } else { "alloc" }).or_insert(0) += 1;
            match got {
                Some(idx) => {
                    if order > max_order {
                        return Err(format!("alloc({order}) succeeded above max_order {max_order}"));
                    }
                    let end = (u64::from(idx) + 1) << order;
                    if end > u64::from(sh.len()) {
                        return Err(format!("alloc({order}) returned block {idx} which ends at page {end}, beyond the region of {} pages", sh.len()));
                    }
                    if !sh.block_free(idx, order) {
                        return Err(format!("alloc({order}) returned block {idx} which overlaps a live block"));
                    }
                    if lowest {
                        if sh.lowest_free_block(order) == Some(idx) {
                            st.lowest_was_lowest += 1;
                        } else {
                            st.lowest_not_lowest += 1;
                        }
                    }
                    sh.mark(idx, order, true);
                    sh.live.insert(idx << order, order);
                }
                None => {
                    st.refused_full += 1;
                    if sh.has_free_block(order) {
                        return Err(format!(
                            "alloc({order}) refused although an aligned free block of that order exists (block {:?})",
                            sh.lowest_free_block(order)
                        ));
                    }
                }
            }
        } else if roll < 78 {
            // free a live block
            if sh.live.is_empty() {
                continue;
            }
            let k = rng.usize(sh.live.len());
            let (&start, &o) = sh.live.iter().nth(k).unwrap();
            let idx = start >> o;
            let r = b.free(idx, o);
            tr!("free({idx}, {o}) -> merged order {r}");
            *st.by_op.entry("free").or_insert(0) += 1;
            sh.mark(idx, o, false);
            sh.live.remove(&start);
            if r < o || r > max_order {
                return Err(format!("free({idx}, {o}) reported resulting order {r}"));
            }
            if r > o {
                st.merges += 1;
            }
            let big = idx >> (r - o);
            if !sh.block_free(big, r) {
                return Err(format!(
                    "free({idx}, {o}) reported a merged block of order {r} (block {big}) that is not entirely free"
                ));
            }
            if r < max_order {
                let buddy = big ^ 1;
                if sh.block_free(buddy, r) {
                    return Err(format!(
                        "free({idx}, {o}) stopped merging at order {r} although the buddy block {buddy} is free: the space is not allocatable at the largest size its neighbours allow"
                    ));
                }
            }
        } else if roll < 88 {
            // explicit reservation
            let o = order.min(max_order + 1);
            let n = (sh.len() >> o.min(31)).max(1);
            let idx = rng.below(u64::from(n) + 2) as u32;
            let exp = o <= max_order && sh.block_free(idx, o);
            let got = b.record_alloc(idx, o);
            tr!("record_alloc({idx}, {o}) -> {got}");
            *st.by_op.entry("record_alloc").or_insert(0) += 1;
            if got != exp {
                return Err(format!(
                    "record_alloc({idx}, {o}) returned {got}; the block is {} in the shadow",
                    if exp { "free and in range" } else { "occupied or out of range" }
                ));
            }
            if got {
                sh.mark(idx, o, true);
                sh.live.insert(idx << o, o);
            }
        } else if roll < 94 {
            // resize
            let grow = rng.bool();
            let new = if grow {
                rng.range(u64::from(sh.len()), u64::from(capacity)) as u32
            } else {
                let tf = sh.trailing_free();
                if tf == 0 {
                    continue;
                }
                let cut = rng.range(1, u64::from(tf)) as u32;
                sh.len() - cut
            };
            if new == 0 || new == sh.len() {
                continue;
            }
            tr!("resize {} -> {new}", sh.len());
            *st.by_op.entry(if grow { "resize_grow" } else { "resize_shrink" }).or_insert(0) += 1;
            b.resize(new);
            sh.used.resize(new as usize, false);
        } else {
            // save + reload, continue on the reloaded copy
            let bytes = b.to_vec();
            b = BuddyHandle::from_bytes(&bytes);
            if b.to_vec() != bytes {
                return Err("to_vec(from_bytes(x)) != x".into());
            }
            st.reloads += 1;
            tr!("reload");
            *st.by_op.entry("reload").or_insert(0) += 1;
        }
        if step % 5 == 0 || sh.len() <= 40 {
            check_views(&b, &sh, &format!("after step {step}"))?;
        }
    }
    check_views(&b, &sh, "final")?;
    // drain: freeing everything must give back one fully free region
    let live: Vec<(u32, u8)> = sh.live.iter().map(|(s, o)| (*s, *o)).collect();
    for (start, o) in live {
        b.free(start >> o, o);
        sh.mark(start >> o, o, false);
        sh.live.remove(&start);
    }
    check_views(&b, &sh, "after freeing everything")?;
    Ok(())
}

/// Region level: allocations must land in the lowest region that has a suitable free block, and the
/// file must grow only when no region has one.
fn region_case(rng: &mut Rng, n_ops: usize, trace: &mut Option<Vec<String>>, st: &mut Stats) -> Result<(u64, u64), String> {
    // large pages: a new database is at least 1 MiB, so small pages would start with hundreds of
    // regions and the file would never have to grow
    let page_size = 65536usize;
    let region_pages = *rng.pick(&[4u64, 8, 16, 32]);
    let mem = MemHandle::new(page_size, region_pages * page_size as u64).map_err(|e| format!("MemHandle::new: {e}"))?;
    macro_rules! tr {
        ($($a:tt)*) => { if let Some(t) = trace.as_mut() { t.push(format!($($a)*)); } };
    }
    // shadow per region from the snapshot's geometry
    let region_lens = |s: &redb::verif::MemSnapshot| -> Vec<u32> {
        s.regions
            .iter()
            .map(|r| BuddyImage::parse(r).map(|b| b.num_pages).unwrap_or(0))
            .collect()
    };
    let snap = mem.snapshot();
    let mut lens = region_lens(&snap);
    let mut used: Vec<Vec<bool>> = lens.iter().map(|l| vec![false; *l as usize]).collect();
    let mut live: Vec<(u32, u32, u8)> = vec![];
    let max_order_of = |pages: u32| -> u8 { (31 - (region_pages as u32).leading_zeros()).min(31 - pages.max(1).leading_zeros()) as u8 };
    let block_free = |used: &Vec<Vec<bool>>, r: usize, idx: u32, o: u8| -> bool {
        let s = (idx as usize) << o;
        let e = s + (1usize << o);
        e <= used[r].len() && used[r][s..e].iter().all(|u| !u)
    };
    let has_block = |used: &Vec<Vec<bool>>, r: usize, o: u8| -> bool {
        let n = (used[r].len() as u32) >> o;
        (0..n).any(|i| block_free(used, r, i, o))
    };
    let mut growths = 0u64;
    let mut allocs = 0u64;
    for step in 0..n_ops {
        st.ops += 1;
        if rng.chance(3, 5) || live.is_empty() {
            let pages = *rng.pick(&[1usize, 1, 1, 2, 2, 3, 4, 5, 8]);
            let pages = pages.min(region_pages as usize);
            let order = (pages.next_power_of_two().trailing_zeros()) as u8;
            let lowest = rng.bool();
            let before_regions = used.len();
            let candidate = (0..used.len()).find(|r| order <= max_order_of(lens[*r]).max(0) && has_block(&used, *r, order));
            let (r, idx, o) = mem
                .allocate(pages * page_size, lowest)
                .map_err(|e| format!("allocate({pages} pages) failed: {e}"))?;
            allocs += 1;
            *st.by_op.entry("region_allocate").or_insert(0) += 1;
            tr!("allocate {pages}p lowest={lowest} -> r{r}.{idx}/{o}");
            if o != order {
                return Err(format!("allocate({pages} pages) returned order {o}, expected {order}"));
            }
            let snap = mem.snapshot();
            let new_lens = region_lens(&snap);
            if new_lens.len() < before_regions {
                return Err("the number of regions shrank during an allocation".into());
            }
            let grew = new_lens != lens;
            if grew {
                growths += 1;
                if let Some(c) = candidate {
                    return Err(format!(
                        "allocation of order {order} grew the file although region {c} has an aligned free block of that order (region reported full)"
                    ));
                }
                for (i, l) in new_lens.iter().enumerate() {
                    if i < used.len() {
                        used[i].resize(*l as usize, false);
                    } else {
                        used.push(vec![false; *l as usize]);
                    }
                }
                lens = new_lens;
            } else if let Some(c) = candidate {
                if (r as usize) > c {
                    return Err(format!(
                        "allocation of order {order} landed in region {r} although region {c} has an aligned free block of that order (region reported full)"
                    ));
                }
            }
            let r_us = r as usize;
            if r_us >= used.len() {
                return Err(format!("allocation landed in region {r} which does not exist"));
            }
            if !block_free(&used, r_us, idx, o) {
                return Err(format!("allocation r{r}.{idx}/{o} overlaps a live block or leaves its region"));
            }
            let s = (idx as usize) << o;
            for u in &mut used[r_us][s..s + (1usize << o)] {
                *u = true;
            }
            live.push((r, idx, o));
        } else {
            let k = rng.usize(live.len());
            let (r, idx, o) = live.swap_remove(k);
            mem.free(r, idx, o);
            *st.by_op.entry("region_free").or_insert(0) += 1;
            tr!("free r{r}.{idx}/{o}");
            let s = (idx as usize) << o;
            for u in &mut used[r as usize][s..s + (1usize << o)] {
                *u = false;
            }
        }
        if step % 8 == 0 {
            let snap = mem.snapshot();
            for (ri, bytes) in snap.regions.iter().enumerate() {
                let img = BuddyImage::parse(bytes).ok_or("region allocator does not parse")?;
                let alloc = img.allocated_order0();
                for p in 0..img.num_pages {
                    if alloc.contains(&p) != used[ri][p as usize] {
                        return Err(format!(
                            "region {ri} page {p}: allocator says allocated={} but the shadow says {}",
                            alloc.contains(&p),
                            used[ri][p as usize]
                        ));
                    }
                }
            }
        }
    }
    Ok((allocs, growths))
}

const LT: redb::TableDefinition<u64, &[u8]> = redb::TableDefinition::new("lifecycle");

/// Region life-cycle through the database itself: tiny regions, a table is filled (the file grows
/// over many regions), emptied and the file shrunk by empty commits (trailing regions are removed
/// from the allocator and the tracker), then refilled -- several rounds. Judged: no panic, contents,
/// exact page ownership after every commit, and the refill must not need more file than the first
/// fill did plus one region (a region with a suitable free block is never reported full).
fn region_lifecycle_case(seed: u64, case: u64) -> (u64, u64, Option<String>) {
    use redb::{ReadableDatabase, ReadableTable};
    let mut rng = Rng::for_case(seed, "C14life", case);
    let page = 512usize;
    let region_pages = *rng.pick(&[8u64, 16, 32]);
    let cfg = crate::world::Cfg { page_size: page, region_pages: Some(region_pages), cache: *rng.pick(&[0usize, 65536, 1 << 20]) };
    let be = crate::backend::MonBackend::new();
    let db = match cfg.builder().create_with_backend(be.clone()) {
        Ok(d) => d,
        Err(e) => return (0, 0, Some(format!("create: {e}"))),
    };
    let n = rng.range(150, 900);
    let vlen = rng.range(40, 700) as usize;
    let mut commits = 0u64;
    let mut max_regions = 0u64;
    let mut peak_after_fill = 0usize;
    let r = crate::report::guarded(|| -> Result<(), String> {
        let account = |what: &str, max_regions: &mut u64| -> Result<(), String> {
            match crate::own::account(&db, &[]) {
                Ok(a) => {
                    *max_regions = (*max_regions).max(a.regions);
                    Ok(())
                }
                Err(e) if e.starts_with("machinery") => Ok(()),
                Err(e) => Err(format!("{what}: {e}")),
            }
        };
        for round in 0..3u64 {
            // fill
            let txn = db.begin_write().map_err(|e| e.to_string())?;
            {
                let mut t = txn.open_table(LT).map_err(|e| e.to_string())?;
                for i in 0..n {
                    t.insert(i, vec![(i + round) as u8; vlen].as_slice()).map_err(|e| e.to_string())?;
                }
            }
            txn.commit().map_err(|e| e.to_string())?;
            commits += 1;
            account("after filling", &mut max_regions)?;
            let len_now = be.lock().data.len();
            if round == 0 {
                peak_after_fill = len_now;
            } else if len_now > peak_after_fill + 2 * (region_pages as usize + 1) * page {
                return Err(format!(
                    "refilling the same {n} x {vlen} bytes after the file had shrunk needs {len_now} bytes of file, the first fill needed {peak_after_fill}: free space in existing regions was not found"
                ));
            }
            // read back
            {
                let rt = db.begin_read().map_err(|e| e.to_string())?;
                let t = rt.open_table(LT).map_err(|e| e.to_string())?;
                let mut c = 0;
                for e in t.iter().map_err(|e| e.to_string())? {
                    let (k, v) = e.map_err(|e| e.to_string())?;
                    if v.value().len() != vlen || v.value().iter().any(|b| *b != (k.value() + round) as u8) {
                        return Err(format!("round {round}: key {} holds a value that was not written", k.value()));
                    }
                    c += 1;
                }
                if c != n {
                    return Err(format!("round {round}: {c} of {n} keys present"));
                }
            }
            // empty it and let the file shrink
            let txn = db.begin_write().map_err(|e| e.to_string())?;
            {
                let mut t = txn.open_table(LT).map_err(|e| e.to_string())?;
                t.retain(|_, _| false).map_err(|e| e.to_string())?;
            }
            txn.commit().map_err(|e| e.to_string())?;
            commits += 1;
            for _ in 0..rng.range(1, 4) {
                let txn = db.begin_write().map_err(|e| e.to_string())?;
                txn.commit().map_err(|e| e.to_string())?;
                commits += 1;
                account("after an empty commit", &mut max_regions)?;
            }
        }
        Ok(())
    });
    let v = match r {
        Ok(Ok(())) => None,
        Ok(Err(e)) => Some(e),
        Err(p) => Some(format!("panic: {}", p.short())),
    };
    drop(db);
    let v = v.or_else(|| be.lock().violations.first().map(|e| format!("backend: {e}")));
    (commits, max_regions, v.map(|e| format!("region life-cycle ({region_pages}-page regions, {n} x {vlen} B): {e}")))
}

pub fn run(rep: &Report) {
    rep.set_rule(
        "case = (region capacity, initial size, operation seed): 200-2000 random alloc(order)/alloc_lowest(order)/free/record_alloc/resize/serialize+reload steps on the real BuddyAllocator (through the cfg(redb_verif) wrapper) against a shadow bitmap of order-0 pages: every returned block must be in range and disjoint from live blocks, a refusal is legal only when the shadow has no aligned free block of that order, free() must report a merged block that is entirely free and whose buddy is not, record_alloc must return true exactly for free in-range blocks, counts and trailing_free_pages must match, the independently decoded serialized bytes must match, and for every order 'can allocate' (probed on a reloaded copy) must equal 'aligned free block exists'. Region level: allocations through TransactionalMemory must land in the lowest region with a suitable block and grow the file only when none has one. distinct_nontrivial = distinct cases that saw at least one buddy merge and one refusal",
    );
    rep.assume("shrinking resize is only issued when the shadow tail is free (the caller contract of try_shrink)");
    let (caps, n_ops, region_cases): (Vec<u32>, usize, u64) = match rep.tier {
        Tier::Quick => ((1..=160).step_by(1).collect(), 300, 300),
        Tier::Thorough => ((1..=160).collect(), 1500, 6000),
    };
    // every capacity x a sample (quick) / all (thorough) initial sizes
    let mut cases: Vec<(u32, u32)> = vec![];
    for c in &caps {
        for i in 1..=*c {
            if rep.tier == Tier::Thorough || i == *c || i == 1 || (i * 7 + c) % 6 == 0 {
                cases.push((*c, i));
            }
        }
    }
    let n_buddy = cases.len() as u64;
    rep.extra("exhaustive", json!(false));
    let life_cases = match rep.tier {
        Tier::Quick => 160u64,
        Tier::Thorough => 4_000u64,
    };
    run_cases(
        rep,
        n_buddy + region_cases + life_cases,
        |case| {
            let replay = json!({"check": "C14", "seed": rep.seed, "case": case, "tier": rep.tier.name()});
            if case >= n_buddy + region_cases {
                let (commits, regions, v) = region_lifecycle_case(rep.seed, case);
                rep.eval(1);
                rep.count("lifecycle.cases", 1);
                rep.count("lifecycle.commits", commits);
                rep.count_max("max.lifecycle_regions", regions);
                if regions > 1 {
                    rep.distinct(mix(case, regions));
                }
                if let Some(e) = v {
                    rep.violation(format!("lifecycle:{}", crate::checks::c01::short_sig(&e)), format!("case {case}: {e}"), replay);
                }
                return;
            }
            let mut rng = Rng::for_case(rep.seed, "C14", case);
            let trace_on = rep.replay_only.is_some() || rep.want_sample();
            let mut trace = if trace_on { Some(vec![]) } else { None };
            let mut st = Stats {
                ops: 0,
                by_op: BTreeMap::new(),
                refused_full: 0,
                merges: 0,
                lowest_was_lowest: 0,
                lowest_not_lowest: 0,
                reloads: 0,
            };
            rep.eval(1);
            if case < n_buddy {
                let (cap, init) = cases[case as usize];
                let r = buddy_case(&mut rng, cap, init, n_ops, &mut trace, &mut st);
                rep.count("buddy_cases", 1);
                if let Err(e) = r {
                    rep.violation(
                        format!("buddy:{}", short_sig(&e)),
                        format!("case {case} capacity {cap} initial {init}: {e}; trace tail {:?}", crate::checks::c01::tail(&trace)),
                        replay,
                    );
                } else {
                    if st.merges > 0 && st.refused_full > 0 {
                        rep.distinct(mix(case, u64::from(cap) << 16 | u64::from(init)));
                    }
                    if rep.want_sample() {
                        rep.sample(json!({"case": case, "level": "buddy", "capacity": cap, "initial_pages": init, "ops": st.ops, "merges": st.merges, "refusals": st.refused_full,
                            "trace_head": trace.as_ref().map(|t| t.iter().take(30).cloned().collect::<Vec<_>>())}));
                    }
                }
            } else {
                let r = region_case(&mut rng, 400, &mut trace, &mut st);
                rep.count("region_cases", 1);
                match r {
                    Err(e) => rep.violation(
                        format!("region:{}", short_sig(&e)),
                        format!("case {case}: {e}; trace tail {:?}", crate::checks::c01::tail(&trace)),
                        replay,
                    ),
                    Ok((allocs, growths)) => {
                        rep.count("region.allocations", allocs);
                        rep.count("region.file_growths", growths);
                        if growths > 0 {
                            rep.distinct(mix(case, 0xABCD));
                        }
                    }
                }
            }
            rep.count("ops", st.ops);
            rep.count("buddy.merges", st.merges);
            rep.count("buddy.refusals_when_full", st.refused_full);
            rep.count("buddy.reloads", st.reloads);
            rep.count("alloc_lowest.returned_lowest", st.lowest_was_lowest);
            rep.count("alloc_lowest.returned_other (logged, not judged)", st.lowest_not_lowest);
            for (k, v) in &st.by_op {
                rep.count(&format!("op.{k}"), *v);
            }
        },
        |case, p| {
            rep.violation(
                format!("panic:{}", p.location),
                format!("case {case}: {}", p.short()),
                json!({"check": "C14", "seed": rep.seed, "case": case, "tier": rep.tier.name()}),
            );
        },
    );
}
