//! C09 -- a multimap table behaves as a map from keys to ordered sets.

use crate::checks::c01::{short_sig, tail};
use crate::checks::c04::{CFGS, TDb};
use crate::model::*;
use crate::ops::*;
use crate::report::{Report, Tier, run_cases};
use crate::rng::{Rng, mix};
use crate::typed::*;
use crate::world::Cfg;
use redb::{MultimapTableDefinition, ReadableDatabase};
use serde_json::json;
use std::collections::{BTreeMap, BTreeSet};
use std::ops::Bound;

type MM = BTreeMap<Vec<u8>, BTreeSet<Vec<u8>>>;

fn mm_val<VC: KeyGen>(rng: &mut Rng, page: usize, vspace: u64) -> Vec<u8> {
    if VC::FIXED.is_none() && rng.chance(1, 7) {
        // long values: around half a page (immediate subtree) and beyond a page
        let j = rng.below(vspace);
        let base = match rng.below(4) {
            0 => page / 2 - 30 + rng.usize(40),
            1 => page / 2 + rng.usize(20),
            2 => page + rng.usize(60),
            _ => page / 4 + rng.usize(30),
        };
        let mut v = vec![b'L'; base];
        v.extend_from_slice(format!("{j:06}").as_bytes());
        return v;
    }
    VC::key(rng.below(vspace))
}

pub struct MStats {
    pub ops: u64,
    pub commits: u64,
    pub reopens: u64,
    pub max_values_per_key: u64,
    pub by_op: BTreeMap<&'static str, u64>,
}

fn verify_all<KC: KeyGen, VC: KeyGen, T: redb::ReadableMultimapTable<KC::T, VC::T>>(
    t: &T,
    m: &MM,
) -> R<()> {
    let got = m_scan_all::<KC, VC, T>(t)?;
    if &got != m {
        let mut a = Contents::new();
        let mut b = Contents::new();
        a.insert("mm".into(), TableModel::M(m.clone()));
        b.insert("mm".into(), TableModel::M(got));
        return oracle(format!(
            "multimap contents differ from the model: {}",
            diff_contents(&a, &b).unwrap_or_default()
        ));
    }
    m_len::<KC, VC, T>(t, m)?;
    m_range::<KC, VC, T>(t, m, &Bound::Unbounded, &Bound::Unbounded, true)?;
    Ok(())
}

pub fn mm_case<KC: KeyGen, VC: KeyGen>(
    tdb: &mut TDb,
    rng: &mut Rng,
    trace: &mut Option<Vec<String>>,
) -> R<MStats> {
    let def: MultimapTableDefinition<KC::T, VC::T> = MultimapTableDefinition::new("mm");
    let mut m: MM = BTreeMap::new();
    let page = tdb.cfg.page_size;
    let keyspace = *rng.pick(&[2u64, 6, 20, 80]);
    let vspace = *rng.pick(&[4u64, 16, 60, 3000]);
    let n_txn = rng.range(1, 6);
    let mut st = MStats {
        ops: 0,
        commits: 0,
        reopens: 0,
        max_values_per_key: 0,
        by_op: BTreeMap::new(),
    };
    macro_rules! tr {
        ($($a:tt)*) => { if let Some(t) = trace.as_mut() { t.push(format!($($a)*)); } };
    }
    for _ in 0..n_txn {
        let mut txn = tdb.db().begin_write().map_err(se("begin_write"))?;
        let committed = m.clone();
        {
            let mut t = txn.open_multimap_table(def).map_err(se("open_multimap_table"))?;
            // grow / shrink run on one key: walks the inline <-> subtree boundary one value at a time
            if rng.chance(1, 3) {
                let k = pick_key::<KC>(rng, keyspace);
                let n = *rng.pick(&[3u64, 10, 40, 200, 1500]);
                let start = rng.below(50);
                tr!("grow key {} by {n} values from {start}", hex(&k));
                for j in 0..n {
                    let v = VC::key(start + j);
                    m_insert::<KC, VC>(&mut t, &mut m, &k, &v)?;
                    if j % 7 == 0 || n <= 40 {
                        m_get::<KC, VC, _>(&t, &m, &k, j % 2 == 0)?;
                    }
                }
                st.max_values_per_key = st.max_values_per_key.max(m.get(&k).map(|s| s.len() as u64).unwrap_or(0));
                if rng.bool() {
                    let cut = rng.below(n + 1);
                    tr!("shrink key {} by {cut} values", hex(&k));
                    for j in (n - cut..n).rev() {
                        let v = VC::key(start + j);
                        m_remove::<KC, VC>(&mut t, &mut m, &k, &v)?;
                        if j % 5 == 0 || n <= 40 {
                            m_get::<KC, VC, _>(&t, &m, &k, false)?;
                        }
                    }
                }
                *st.by_op.entry("grow_shrink_run").or_insert(0) += 1;
            }
            let n_ops = rng.below(60);
            for _ in 0..n_ops {
                st.ops += 1;
                let name: &'static str;
                match rng.below(100) {
                    0..=44 => {
                        let k = pick_key::<KC>(rng, keyspace);
                        let v = mm_val::<VC>(rng, page, vspace);
                        tr!("insert {} += {}", hex(&k), hex(&v));
                        m_insert::<KC, VC>(&mut t, &mut m, &k, &v)?;
                        name = "insert";
                    }
                    45..=64 => {
                        let k = pick_key::<KC>(rng, keyspace);
                        // prefer a value that exists
                        let v = match m.get(&k) {
                            Some(s) if !s.is_empty() && rng.chance(3, 4) => {
                                let idx = rng.usize(s.len());
                                s.iter().nth(idx).unwrap().clone()
                            }
                            _ => mm_val::<VC>(rng, page, vspace),
                        };
                        tr!("remove {} -= {}", hex(&k), hex(&v));
                        m_remove::<KC, VC>(&mut t, &mut m, &k, &v)?;
                        name = "remove";
                    }
                    65..=71 => {
                        let k = pick_key::<KC>(rng, keyspace);
                        tr!("remove_all {}", hex(&k));
                        m_remove_all::<KC, VC>(&mut t, &mut m, &k)?;
                        name = "remove_all";
                    }
                    72..=86 => {
                        let k = pick_key::<KC>(rng, keyspace);
                        let back = rng.bool();
                        m_get::<KC, VC, _>(&t, &m, &k, back)?;
                        name = "get";
                    }
                    87..=95 => {
                        let lo = match rng.below(3) {
                            0 => Bound::Unbounded,
                            1 => Bound::Included(pick_key::<KC>(rng, keyspace)),
                            _ => Bound::Excluded(pick_key::<KC>(rng, keyspace)),
                        };
                        let hi = match rng.below(3) {
                            0 => Bound::Unbounded,
                            1 => Bound::Included(pick_key::<KC>(rng, keyspace)),
                            _ => Bound::Excluded(pick_key::<KC>(rng, keyspace)),
                        };
                        let back = rng.bool();
                        m_range::<KC, VC, _>(&t, &m, &lo, &hi, back)?;
                        name = "range";
                    }
                    _ => {
                        m_len::<KC, VC, _>(&t, &m)?;
                        name = "len";
                    }
                }
                *st.by_op.entry(name).or_insert(0) += 1;
            }
            verify_all::<KC, VC, _>(&t, &m)?;
        }
        for s in m.values() {
            st.max_values_per_key = st.max_values_per_key.max(s.len() as u64);
        }
        if rng.chance(1, 8) {
            tr!("abort");
            txn.abort().map_err(se("abort"))?;
            m = committed;
        } else {
            if rng.chance(1, 5) {
                txn.set_quick_repair(true);
            }
            if rng.chance(1, 5) {
                txn.set_durability(redb::Durability::None).map_err(se("set_durability"))?;
            }
            tr!("commit");
            txn.commit().map_err(se("commit"))?;
            st.commits += 1;
        }
        let check_ro = |tdb: &TDb, m: &MM| -> R<()> {
            let rt = tdb.db().begin_read().map_err(se("begin_read"))?;
            match rt.open_multimap_table(def) {
                Ok(t) => verify_all::<KC, VC, _>(&t, m),
                Err(redb::TableError::TableDoesNotExist(_)) => {
                    ensure!(m.is_empty(), "multimap table missing although the model has {} keys", m.len());
                    Ok(())
                }
                Err(e) => Err(Fail::Storage(format!("ro open_multimap_table: {e}"))),
            }
        };
        check_ro(tdb, &m)?;
        if rng.chance(1, 4) {
            tr!("reopen");
            tdb.reopen()?;
            st.reopens += 1;
            check_ro(tdb, &m)?;
        }
    }
    // finally: delete the table and make sure a fresh one is empty
    if rng.chance(1, 3) {
        let txn = tdb.db().begin_write().map_err(se("begin_write"))?;
        let existed = txn.delete_multimap_table(def).map_err(se("delete_multimap_table"))?;
        let _ = existed;
        {
            let t = txn.open_multimap_table(def).map_err(se("open_multimap_table"))?;
            verify_all::<KC, VC, _>(&t, &MM::new())?;
        }
        txn.commit().map_err(se("commit"))?;
        *st.by_op.entry("delete_table").or_insert(0) += 1;
    }
    Ok(st)
}

pub const COMBOS: [&str; 6] = [
    "u64->u64", "u64->&[u8]", "u64->&str", "&str->u64", "&str->&[u8]", "&str->&str",
];

pub fn run(rep: &Report) {
    rep.set_rule(
        "case = (sequence seed, key type u64|&str, value type u64|&[u8]|&str, configuration): random insert/remove/remove_all/get (both directions)/range (both directions)/len sequences with 1..3000 values per key, grow/shrink runs that move one key's value set across the inline/subtree boundary one value at a time, values from empty to longer than a page, aborts, non-durable and quick-repair commits, reopen, table deletion; every result compared with BTreeMap<K,BTreeSet<V>>; full scan after every transaction/commit/reopen; every completed sync decoded by the independent format decoder (subtree checksums, counts, pair length). distinct_nontrivial = distinct cases in which the decoder saw both inline and subtree collections",
    );
    rep.assume("keys per table <= 80, values per key <= 3000");
    let n = match rep.tier {
        Tier::Quick => 12_000u64,
        Tier::Thorough => 400_000u64,
    };
    run_cases(
        rep,
        n,
        |case| {
            let replay = json!({"check": "C09", "seed": rep.seed, "case": case, "tier": rep.tier.name()});
            let mut rng = Rng::for_case(rep.seed, "C09", case / 2);
            let combo = rng.usize(6);
            let (p, r, c) = CFGS[(case % 2) as usize * 3 + (case / 2 % 3) as usize];
            let cfg = Cfg {
                page_size: p,
                region_pages: r,
                cache: c,
            };
            let trace_on = rep.replay_only.is_some() || rep.want_sample();
            let mut trace = if trace_on { Some(vec![]) } else { None };
            let mut tdb = match TDb::create(cfg.clone(), true) {
                Ok(t) => t,
                Err(e) => {
                    rep.violation("create-failed", e.text().to_string(), replay);
                    return;
                }
            };
            let res = match combo {
                0 => mm_case::<ColU64, ColU64>(&mut tdb, &mut rng, &mut trace),
                1 => mm_case::<ColU64, ColBytes>(&mut tdb, &mut rng, &mut trace),
                2 => mm_case::<ColU64, ColStr>(&mut tdb, &mut rng, &mut trace),
                3 => mm_case::<ColStr, ColU64>(&mut tdb, &mut rng, &mut trace),
                4 => mm_case::<ColStr, ColBytes>(&mut tdb, &mut rng, &mut trace),
                _ => mm_case::<ColStr, ColStr>(&mut tdb, &mut rng, &mut trace),
            };
            tdb.close();
            rep.eval(1);
            match res {
                Err(f) => {
                    let kind = match f {
                        Fail::Oracle(_) => "oracle",
                        Fail::Storage(_) => "error",
                    };
                    rep.violation(
                        format!("{kind}:{}", short_sig(f.text())),
                        format!("case {case} types {} cfg {:?}: {}; trace tail {:?}", COMBOS[combo], cfg, f.text(), tail(&trace)),
                        replay,
                    );
                }
                Ok(st) => {
                    if let Some(e) = tdb.sync_errors.first() {
                        rep.violation(
                            format!("format:{}", short_sig(e)),
                            format!("case {case} types {} cfg {:?}: {e}", COMBOS[combo], cfg),
                            replay.clone(),
                        );
                    }
                    if let Some(e) = tdb.violations.first() {
                        rep.violation(format!("backend:{}", short_sig(e)), format!("case {case}: {e}"), replay.clone());
                    }
                    rep.count("ops", st.ops);
                    rep.count("commits", st.commits);
                    rep.count("reopens", st.reopens);
                    rep.count_max("max.values_per_key", st.max_values_per_key);
                    for (k, v) in &st.by_op {
                        rep.count(&format!("op.{k}"), *v);
                    }
                    rep.count(&format!("types.{}", COMBOS[combo]), 1);
                    for (k, v) in &tdb.obs {
                        if k.starts_with("max.") {
                            rep.count_max(&format!("m2.{k}"), *v);
                        } else {
                            rep.count(&format!("m2.{k}"), *v);
                        }
                    }
                    let inl = tdb.obs.get("inline_collections").copied().unwrap_or(0);
                    let sub = tdb.obs.get("subtree_collections").copied().unwrap_or(0);
                    if inl > 0 && sub > 0 {
                        rep.distinct(mix(case, combo as u64));
                    }
                    if rep.want_sample() {
                        rep.sample(json!({
                            "case": case, "types": COMBOS[combo], "cfg": cfg.json(), "ops": st.ops,
                            "max_values_per_key": st.max_values_per_key,
                            "inline_collections_decoded": inl, "subtree_collections_decoded": sub,
                            "trace_head": trace.as_ref().map(|t| t.iter().take(25).cloned().collect::<Vec<_>>()),
                        }));
                    }
                }
            }
        },
        |case, p| {
            rep.violation(
                format!("panic:{}", p.location),
                format!("case {case}: {}", p.short()),
                json!({"check": "C09", "seed": rep.seed, "case": case, "tier": rep.tier.name()}),
            );
        },
    );
}
