//! C18 -- gap cursors agree with a sorted-map cursor.

use crate::checks::c01::{short_sig, tail};
use crate::checks::c04::{CFGS, TDb};
use crate::model::*;
use crate::ops::*;
use crate::report::{Report, Tier, run_cases};
use crate::rng::{Rng, mix};
use crate::typed::*;
use crate::world::{Cfg, value_len};
use redb::{ReadableDatabase, ReadableTable, StorageError, TableDefinition};
use serde_json::json;
use std::collections::BTreeMap;
use std::ops::Bound;

type M = BTreeMap<Vec<u8>, Vec<u8>>;

/// model cursor: the gap is identified by the key before it
#[derive(Clone, Debug)]
struct Gap {
    prev: Option<Vec<u8>>,
}

fn next_of<'m>(m: &'m M, g: &Gap) -> Option<(&'m Vec<u8>, &'m Vec<u8>)> {
    match &g.prev {
        None => m.iter().next(),
        Some(p) => m
            .range::<[u8], _>((Bound::Excluded(p.as_slice()), Bound::Unbounded))
            .next(),
    }
}
fn prev_of<'m>(m: &'m M, g: &Gap) -> Option<(&'m Vec<u8>, &'m Vec<u8>)> {
    g.prev.as_ref().and_then(|p| m.get_key_value(p))
}
fn pred<'m>(m: &'m M, k: &[u8]) -> Option<&'m Vec<u8>> {
    m.range::<[u8], _>((Bound::Unbounded, Bound::Excluded(k)))
        .next_back()
        .map(|(k, _)| k)
}

fn seek(m: &M, lower: bool, b: &Bound<Vec<u8>>) -> Gap {
    // lower_bound: gap before the smallest key >= / > x ; upper_bound: gap after the greatest key <= / < x
    let prev = match (lower, b) {
        (true, Bound::Unbounded) => None,
        (true, Bound::Included(x)) => pred(m, x).cloned(),
        (true, Bound::Excluded(x)) => m
            .range::<[u8], _>((Bound::Unbounded, Bound::Included(x.as_slice())))
            .next_back()
            .map(|(k, _)| k.clone()),
        (false, Bound::Unbounded) => m.keys().next_back().cloned(),
        (false, Bound::Included(x)) => m
            .range::<[u8], _>((Bound::Unbounded, Bound::Included(x.as_slice())))
            .next_back()
            .map(|(k, _)| k.clone()),
        (false, Bound::Excluded(x)) => pred(m, x).cloned(),
    };
    Gap { prev }
}

type Pair = Option<(Vec<u8>, Vec<u8>)>;

fn own<KC: Col, VC: Col>(
    e: Option<(redb::AccessGuard<'_, KC::T>, redb::AccessGuard<'_, VC::T>)>,
) -> Pair {
    e.map(|(k, v)| (KC::model(k.value()), VC::model(v.value())))
}

fn cl(e: Option<(&Vec<u8>, &Vec<u8>)>) -> Pair {
    e.map(|(k, v)| (k.clone(), v.clone()))
}

/// a key strictly inside the gap if one can be found, in model form
fn key_in_gap<KC: KeyGen>(m: &M, g: &Gap, rng: &mut Rng, desc: bool) -> Option<Vec<u8>> {
    let lo = g.prev.clone();
    let hi = next_of(m, g).map(|(k, _)| k.clone());
    if KC::FIXED == Some(8) {
        let l = lo.map(|x| u64::from_be_bytes(x.try_into().unwrap()));
        let h = hi.map(|x| u64::from_be_bytes(x.try_into().unwrap()));
        let lo_v = l.map(|x| x.checked_add(1)).unwrap_or(Some(0))?;
        let hi_v = h.map(|x| x.checked_sub(1)).unwrap_or(Some(u64::MAX))?;
        if lo_v > hi_v {
            return None;
        }
        // runs walk from one end of the gap so that many keys fit
        let span = hi_v - lo_v;
        let step = rng.below(span.min(3) + 1);
        let v = if desc { hi_v - step } else { lo_v + step };
        return Some(v.to_be_bytes().to_vec());
    }
    // byte strings: extend the lower neighbour, or shorten towards the upper one
    for _ in 0..4 {
        let mut c = lo.clone().unwrap_or_default();
        let n = rng.range(1, 3);
        for _ in 0..n {
            if KC::NAME == "&str" {
                c.push(b'a' + rng.below(26) as u8);
            } else {
                c.push(rng.next() as u8);
            }
        }
        let above = lo.as_ref().map(|l| &c > l).unwrap_or(true);
        let below = hi.as_ref().map(|h| &c < h).unwrap_or(true);
        if above && below {
            return Some(c);
        }
    }
    None
}

struct Stats {
    ops: BTreeMap<&'static str, u64>,
    accepted: u64,
    rejected: u64,
    longest_run: u64,
    cursors: u64,
    max_len: u64,
}

fn bump(s: &mut Stats, k: &'static str) {
    *s.ops.entry(k).or_insert(0) += 1;
}

fn gen_bound<KC: KeyGen>(rng: &mut Rng, m: &M, keyspace: u64) -> Bound<Vec<u8>> {
    let k = if !m.is_empty() && rng.bool() {
        m.keys().nth(rng.usize(m.len())).unwrap().clone()
    } else {
        KC::key(rng.below(keyspace))
    };
    match rng.below(5) {
        0 => Bound::Unbounded,
        1 | 2 => Bound::Included(k),
        _ => Bound::Excluded(k),
    }
}

fn to_real<'a, KC: Col>(b: &'a Bound<Vec<u8>>) -> Bound<<KC::T as redb::Value>::SelfType<'a>> {
    match b {
        Bound::Included(x) => Bound::Included(KC::real(x)),
        Bound::Excluded(x) => Bound::Excluded(KC::real(x)),
        Bound::Unbounded => Bound::Unbounded,
    }
}

/// one mutable-cursor script on an open table
fn cursor_script<KC: KeyGen, VC: Col>(
    t: &mut redb::Table<'_, KC::T, VC::T>,
    m: &mut M,
    rng: &mut Rng,
    page: usize,
    keyspace: u64,
    st: &mut Stats,
    trace: &mut Option<Vec<String>>,
) -> R<()> {
    macro_rules! tr {
        ($($a:tt)*) => { if let Some(t) = trace.as_mut() { t.push(format!($($a)*)); } };
    }
    let lower = rng.bool();
    let b = gen_bound::<KC>(rng, m, keyspace);
    let mut g = seek(m, lower, &b);
    tr!("{}({:?}) -> gap after {:?}", if lower { "lower_bound_mut" } else { "upper_bound_mut" }, b, g.prev.as_ref().map(|x| hex(x)));
    let mut c = if lower {
        t.lower_bound_mut(to_real::<KC>(&b)).map_err(se("lower_bound_mut"))?
    } else {
        t.upper_bound_mut(to_real::<KC>(&b)).map_err(se("upper_bound_mut"))?
    };
    st.cursors += 1;
    let steps = rng.range(1, 40);
    for _ in 0..steps {
        let roll = rng.below(100);
        match roll {
            0..=11 => {
                let got = own::<KC, VC>(c.peek_next().map_err(se("peek_next"))?);
                let want = cl(next_of(m, &g));
                ensure!(got == want, "peek_next returned {:?}, the sorted-map cursor has {:?}", got.as_ref().map(|x| hex(&x.0)), want.as_ref().map(|x| hex(&x.0)));
                let got = own::<KC, VC>(c.peek_prev().map_err(se("peek_prev"))?);
                let want = cl(prev_of(m, &g));
                ensure!(got == want, "peek_prev returned {:?}, the sorted-map cursor has {:?}", got.as_ref().map(|x| hex(&x.0)), want.as_ref().map(|x| hex(&x.0)));
                bump(st, "peek");
            }
            12..=23 => {
                let n = rng.range(1, 6);
                for _ in 0..n {
                    let got = own::<KC, VC>(c.next().map_err(se("next"))?);
                    let want = cl(next_of(m, &g));
                    ensure!(got == want, "next() returned {:?}, the sorted-map cursor has {:?}", got.as_ref().map(|x| hex(&x.0)), want.as_ref().map(|x| hex(&x.0)));
                    if let Some((k, _)) = want {
                        g.prev = Some(k);
                    }
                }
                tr!("next x{n}");
                bump(st, "next");
            }
            24..=35 => {
                let n = rng.range(1, 6);
                for _ in 0..n {
                    let got = own::<KC, VC>(c.prev().map_err(se("prev"))?);
                    let want = cl(prev_of(m, &g));
                    ensure!(got == want, "prev() returned {:?}, the sorted-map cursor has {:?}", got.as_ref().map(|x| hex(&x.0)), want.as_ref().map(|x| hex(&x.0)));
                    if let Some((k, _)) = want {
                        g.prev = pred(m, &k).cloned();
                    }
                }
                tr!("prev x{n}");
                bump(st, "prev");
            }
            36..=71 => {
                // a run of buffered inserts in one direction
                let before = rng.bool();
                let run = match rng.below(10) {
                    0 => rng.range(100, 500),
                    1..=3 => rng.range(10, 60),
                    _ => rng.range(1, 6),
                };
                let mut done = 0u64;
                for _ in 0..run {
                    // mostly a key inside the gap; sometimes a deliberately unordered one
                    let bad = rng.chance(1, 12);
                    let k = if bad {
                        match rng.below(4) {
                            0 => next_of(m, &g).map(|(k, _)| k.clone()),
                            1 => g.prev.clone(),
                            2 => next_of(m, &g).and_then(|(k, _)| {
                                m.range::<[u8], _>((Bound::Excluded(k.as_slice()), Bound::Unbounded)).next().map(|(k, _)| k.clone())
                            }),
                            _ => g.prev.as_ref().and_then(|p| pred(m, p).cloned()),
                        }
                    } else {
                        key_in_gap::<KC>(m, &g, rng, !before)
                    };
                    let Some(k) = k else { break };
                    let v = match VC::FIXED {
                        Some(w) => rng.bytes(w),
                        None => {
                            let l = if rng.chance(1, 20) { value_len(rng, page, 3) } else { rng.usize(60) };
                            rng.bytes(l)
                        }
                    };
                    let lo_ok = g.prev.as_ref().map(|p| &k > p).unwrap_or(true);
                    let hi_ok = next_of(m, &g).map(|(n, _)| &k < n).unwrap_or(true);
                    let expect_ok = lo_ok && hi_ok;
                    let r = if before {
                        c.insert_before(KC::real(&k), VC::real(&v))
                    } else {
                        c.insert_after(KC::real(&k), VC::real(&v))
                    };
                    match r {
                        Ok(()) => {
                            ensure!(
                                expect_ok,
                                "insert_{}({}) was accepted although the key does not sort strictly between the gap's neighbours ({:?}, {:?})",
                                if before { "before" } else { "after" },
                                hex(&k),
                                g.prev.as_ref().map(|x| hex(x)),
                                next_of(m, &g).map(|x| hex(x.0))
                            );
                            m.insert(k.clone(), v);
                            if before {
                                g.prev = Some(k);
                            }
                            st.accepted += 1;
                            done += 1;
                        }
                        Err(StorageError::UnorderedKey) => {
                            ensure!(
                                !expect_ok,
                                "insert_{}({}) was rejected as unordered although it sorts strictly between the gap's neighbours ({:?}, {:?})",
                                if before { "before" } else { "after" },
                                hex(&k),
                                g.prev.as_ref().map(|x| hex(x)),
                                next_of(m, &g).map(|x| hex(x.0))
                            );
                            st.rejected += 1;
                        }
                        Err(e) => return Err(Fail::Storage(format!("cursor insert: {e}"))),
                    }
                }
                st.longest_run = st.longest_run.max(done);
                tr!("insert_{} run of {done}", if before { "before" } else { "after" });
                bump(st, if before { "insert_before_run" } else { "insert_after_run" });
            }
            72..=83 => {
                let got = own::<KC, VC>(c.remove_next().map_err(se("remove_next"))?);
                let want = cl(next_of(m, &g));
                ensure!(got == want, "remove_next returned {:?}, the sorted-map cursor would remove {:?}", got.as_ref().map(|x| hex(&x.0)), want.as_ref().map(|x| hex(&x.0)));
                if let Some((k, _)) = want {
                    m.remove(&k);
                }
                tr!("remove_next");
                bump(st, "remove_next");
            }
            _ => {
                let got = own::<KC, VC>(c.remove_prev().map_err(se("remove_prev"))?);
                let want = cl(prev_of(m, &g));
                ensure!(got == want, "remove_prev returned {:?}, the sorted-map cursor would remove {:?}", got.as_ref().map(|x| hex(&x.0)), want.as_ref().map(|x| hex(&x.0)));
                if let Some((k, _)) = want {
                    g.prev = pred(m, &k).cloned();
                    m.remove(&k);
                }
                tr!("remove_prev");
                bump(st, "remove_prev");
            }
        }
    }
    if rng.chance(3, 4) {
        c.close().map_err(se("cursor close"))?;
        bump(st, "close");
    } else {
        drop(c);
        bump(st, "silent_drop");
    }
    st.max_len = st.max_len.max(m.len() as u64);
    Ok(())
}

/// read-only cursor walk over any readable table
fn ro_script<KC: KeyGen, VC: Col, T: ReadableTable<KC::T, VC::T>>(t: &T, m: &M, rng: &mut Rng, keyspace: u64, st: &mut Stats) -> R<()> {
    let lower = rng.bool();
    let b = gen_bound::<KC>(rng, m, keyspace);
    let mut g = seek(m, lower, &b);
    let mut c = if lower {
        t.lower_bound(to_real::<KC>(&b)).map_err(se("lower_bound"))?
    } else {
        t.upper_bound(to_real::<KC>(&b)).map_err(se("upper_bound"))?
    };
    for _ in 0..rng.range(1, 30) {
        match rng.below(4) {
            0 => {
                let got = own::<KC, VC>(c.peek_next().map_err(se("peek_next"))?);
                ensure!(got == cl(next_of(m, &g)), "read-only cursor peek_next differs from the sorted-map cursor");
                let got = own::<KC, VC>(c.peek_prev().map_err(se("peek_prev"))?);
                ensure!(got == cl(prev_of(m, &g)), "read-only cursor peek_prev differs from the sorted-map cursor");
            }
            1 | 2 => {
                let got = own::<KC, VC>(c.next().map_err(se("next"))?);
                let want = cl(next_of(m, &g));
                ensure!(got == want, "read-only cursor next() returned {:?}, expected {:?}", got.as_ref().map(|x| hex(&x.0)), want.as_ref().map(|x| hex(&x.0)));
                if let Some((k, _)) = want {
                    g.prev = Some(k);
                }
            }
            _ => {
                let got = own::<KC, VC>(c.prev().map_err(se("prev"))?);
                let want = cl(prev_of(m, &g));
                ensure!(got == want, "read-only cursor prev() returned {:?}, expected {:?}", got.as_ref().map(|x| hex(&x.0)), want.as_ref().map(|x| hex(&x.0)));
                if let Some((k, _)) = want {
                    g.prev = pred(m, &k).cloned();
                }
            }
        }
    }
    bump(st, "read_only_cursor");
    Ok(())
}

fn cursor_case<KC: KeyGen, VC: Col>(tdb: &mut TDb, rng: &mut Rng, trace: &mut Option<Vec<String>>, st: &mut Stats) -> R<()> {
    let def: TableDefinition<KC::T, VC::T> = TableDefinition::new("t");
    let mut m: M = BTreeMap::new();
    let page = tdb.cfg.page_size;
    let keyspace = *rng.pick(&[10u64, 100, 3000]);
    // initial contents: 0..3000 entries
    let initial = *rng.pick(&[0u64, 0, 5, 40, 300, 3000]);
    {
        let txn = tdb.db().begin_write().map_err(se("begin_write"))?;
        {
            let mut t = txn.open_table(def).map_err(se("open_table"))?;
            for i in 0..initial {
                let k = KC::key(i * 3);
                let v = match VC::FIXED {
                    Some(w) => rng.bytes(w),
                    None => {
                        let l = rng.usize(30);
                        rng.bytes(l)
                    }
                };
                n_insert::<KC, VC>(&mut t, &mut m, &k, &v)?;
            }
        }
        txn.commit().map_err(se("commit"))?;
    }
    for _ in 0..rng.range(1, 4) {
        let txn = tdb.db().begin_write().map_err(se("begin_write"))?;
        let committed = m.clone();
        {
            let mut t = txn.open_table(def).map_err(se("open_table"))?;
            for _ in 0..rng.range(1, 4) {
                cursor_script::<KC, VC>(&mut t, &mut m, rng, page, keyspace, st, trace)?;
                n_verify_all::<KC, VC, _>(&t, &m)?;
                ro_script::<KC, VC, _>(&t, &m, rng, keyspace, st)?;
            }
        }
        if rng.chance(1, 6) {
            txn.abort().map_err(se("abort"))?;
            m = committed;
        } else {
            txn.commit().map_err(se("commit"))?;
        }
        let rt = tdb.db().begin_read().map_err(se("begin_read"))?;
        let t = rt.open_table(def).map_err(se("ro open_table"))?;
        n_verify_all::<KC, VC, _>(&t, &m)?;
        ro_script::<KC, VC, _>(&t, &m, rng, keyspace, st)?;
    }
    Ok(())
}

pub fn run(rep: &Report) {
    rep.set_rule(
        "case = a table of 0..3000 entries (u64, &[u8] or &str keys; &[u8] or u64 values, up to 3 pages) and a script of cursor operations: lower_bound_mut / upper_bound_mut with Included/Excluded/Unbounded bounds on present and absent keys, peek_next/peek_prev, next/prev in bursts, runs of 1..500 buffered insert_before / insert_after with direction switches, keys strictly inside the gap and deliberately unordered ones (equal to a neighbour, beyond a neighbour, equal to a pending insert), remove_next/remove_prev, close() or silent drop; every answer is compared with a sorted-map cursor whose gap is tracked by the key before it; after every script the whole table must equal the map, also after commit/abort and through read-only cursors on Table and ReadOnlyTable; the independent decoder checks the pages produced by the bulk splice at every sync. evaluations = cursor operations; distinct_nontrivial = distinct cases with a run of at least 10 accepted inserts and at least one rejected key",
    );
    rep.assume("keys generated inside a gap are near its ends for integer keys and extensions of the lower neighbour for byte strings");
    let n = match rep.tier {
        Tier::Quick => 15_000u64,
        Tier::Thorough => 250_000u64,
    };
    run_cases(
        rep,
        n,
        |case| {
            let replay = json!({"check": "C18", "seed": rep.seed, "case": case, "tier": rep.tier.name()});
            let mut rng = Rng::for_case(rep.seed, "C18", case);
            let (p, r, c) = CFGS[rng.usize(CFGS.len())];
            let cfg = Cfg { page_size: p, region_pages: r, cache: c };
            let combo = rng.usize(5);
            let trace_on = rep.replay_only.is_some() || rep.want_sample();
            let mut trace = if trace_on { Some(vec![]) } else { None };
            let mut st = Stats { ops: BTreeMap::new(), accepted: 0, rejected: 0, longest_run: 0, cursors: 0, max_len: 0 };
            let mut tdb = match TDb::create(cfg.clone(), true) {
                Ok(t) => t,
                Err(e) => {
                    rep.violation("create-failed", e.text().to_string(), replay);
                    return;
                }
            };
            let res = match combo {
                0 => cursor_case::<ColU64, ColBytes>(&mut tdb, &mut rng, &mut trace, &mut st),
                1 => cursor_case::<ColBytes, ColBytes>(&mut tdb, &mut rng, &mut trace, &mut st),
                2 => cursor_case::<ColStr, ColBytes>(&mut tdb, &mut rng, &mut trace, &mut st),
                3 => cursor_case::<ColU64, ColU64>(&mut tdb, &mut rng, &mut trace, &mut st),
                _ => cursor_case::<ColBytes, ColU64>(&mut tdb, &mut rng, &mut trace, &mut st),
            };
            tdb.close();
            let ops: u64 = st.ops.values().sum::<u64>() + st.accepted + st.rejected;
            rep.eval(ops.max(1));
            for (k, v) in &st.ops {
                rep.count(&format!("op.{k}"), *v);
            }
            rep.count("inserts_accepted", st.accepted);
            rep.count("inserts_rejected_unordered", st.rejected);
            rep.count("cursors", st.cursors);
            rep.count_max("max.buffered_run", st.longest_run);
            rep.count_max("max.table_len", st.max_len);
            rep.count(&format!("keys.{}", ["u64", "&[u8]", "&str", "u64/u64", "&[u8]/u64"][combo]), 1);
            for (k, v) in &tdb.obs {
                if k.starts_with("max.user") || k == "user_branch_pages" || k == "images_decoded" {
                    if k.starts_with("max.") {
                        rep.count_max(&format!("m2.{k}"), *v);
                    } else {
                        rep.count(&format!("m2.{k}"), *v);
                    }
                }
            }
            if st.longest_run >= 10 && st.rejected > 0 {
                rep.distinct(mix(case, st.accepted));
            }
            let mut fail = res.err();
            if fail.is_none() {
                if let Some(e) = tdb.sync_errors.first() {
                    fail = Some(Fail::Oracle(format!("format: {e}")));
                } else if let Some(e) = tdb.violations.first() {
                    fail = Some(Fail::Oracle(format!("backend: {e}")));
                }
            }
            match fail {
                Some(f) => rep.violation(
                    format!("cursor:{}", short_sig(f.text())),
                    format!("case {case} cfg {:?}: {}; trace tail {:?}", cfg, f.text(), tail(&trace)),
                    replay,
                ),
                None => {
                    if rep.want_sample() && st.accepted > 0 {
                        rep.sample(json!({"case": case, "cfg": cfg.json(), "cursor_operations": ops, "accepted": st.accepted, "rejected": st.rejected,
                            "longest_buffered_run": st.longest_run,
                            "trace_head": trace.as_ref().map(|t| t.iter().take(25).cloned().collect::<Vec<_>>())}));
                    }
                }
            }
        },
        |case, p| {
            rep.violation(
                format!("panic:{}", p.location),
                format!("case {case}: {}", p.short()),
                json!({"check": "C18", "seed": rep.seed, "case": case, "tier": rep.tier.name()}),
            );
        },
    );
}
