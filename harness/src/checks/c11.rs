//! C11 -- reopening reconstructs exactly the right allocation state, whichever way the database
//! was stopped and whichever open path is taken.

use crate::checks::c01::{short_sig, tail};
use crate::checks::c06::{C06Out, acct_step};
use crate::crash::build_image;
use crate::fmt::{BuddyImage, check_image};
use crate::model::*;
use crate::ops::*;
use crate::own::Acct;
use crate::recover::window;
use crate::report::{Report, Tier, guarded, run_cases};
use crate::rng::{Rng, mix};
use crate::world::*;
use serde_json::json;
use std::collections::{BTreeMap, BTreeSet};

/// the allocator state table of a cleanly closed file must describe exactly the pages its trees
/// and pending-free lists need
fn check_closed_file(img: &[u8]) -> Result<u64, String> {
    let (f, d) = check_image(img, false)?;
    let Some(a) = &f.alloc_state else {
        return Err("a cleanly closed file has no allocator state table".into());
    };
    if a.txn != Some(f.txn_id) {
        return Err(format!(
            "the allocator state table of a cleanly closed file belongs to transaction {:?}, the commit is {}",
            a.txn, f.txn_id
        ));
    }
    // the table is written before the commit trims the file, so it may describe more (free)
    // space than the file has; it is resized to the file on load
    if (a.regions.len() as u64) < d.layout.num_regions() {
        return Err(format!(
            "allocator state table has {} regions, the file has {}",
            a.regions.len(),
            d.layout.num_regions()
        ));
    }
    let mut need: BTreeSet<(u32, u32)> = BTreeSet::new();
    let mut add = |p: crate::fmt::PageNo| {
        let (s, e) = p.order0_span();
        for i in s..e {
            need.insert((p.region, i));
        }
    };
    for p in f.data_pages.iter().chain(f.system_pages.iter()) {
        add(*p);
    }
    for (_, _, ps) in f.data_freed.iter().chain(f.system_freed.iter()) {
        for p in ps {
            add(*p);
        }
    }
    let mut have: BTreeSet<(u32, u32)> = BTreeSet::new();
    for (ri, bytes) in a.regions.iter().enumerate() {
        let b = BuddyImage::parse(bytes).ok_or("saved region allocator does not parse")?;
        let pages = d.layout.region_pages(ri as u64) as u32;
        for p in b.allocated_order0() {
            if p < pages {
                have.insert((ri as u32, p));
            } else {
                return Err(format!(
                    "the saved allocator state marks page r{ri}.{p} allocated, which lies beyond the end of the file"
                ));
            }
        }
    }
    if let Some(x) = have.difference(&need).next() {
        return Err(format!(
            "the saved allocator state marks page r{}.{} allocated but nothing in the file needs it (leak persisted by clean close)",
            x.0, x.1
        ));
    }
    if let Some(x) = need.difference(&have).next() {
        return Err(format!(
            "the saved allocator state has page r{}.{} free although the committed contents need it",
            x.0, x.1
        ));
    }
    Ok(have.len() as u64)
}

struct Out {
    cycles: u64,
    stops: BTreeMap<&'static str, u64>,
    integrity_checks: u64,
    accountings: u64,
    closed_files_checked: u64,
    counts: BTreeMap<String, u64>,
    trace: Option<Vec<String>>,
    cfg: Cfg,
}

fn one_case(seed: u64, case: u64, trace_on: bool) -> (Out, Option<Fail>) {
    let mut rng = Rng::for_case(seed, "C11", case);
    let mut cfg = Cfg::pick(&mut rng);
    if cfg.page_size > 1024 {
        cfg.page_size = 1024;
    }
    let mut out = Out {
        cycles: 0,
        stops: BTreeMap::new(),
        integrity_checks: 0,
        accountings: 0,
        closed_files_checked: 0,
        counts: BTreeMap::new(),
        trace: None,
        cfg: cfg.clone(),
    };
    // stratum "many regions": tiny regions and enough data that the file spans several hundred of
    // them, with the high regions in a different allocation state from the low ones (region numbers
    // beyond one byte, per-region snapshot entries far apart in the allocator-state table)
    let many_regions = case % 8 == 5;
    let mut opts = Opts::default();
    if many_regions {
        cfg.page_size = 512;
        cfg.region_pages = Some(8);
        opts.keyspace = 4000;
        opts.max_ops = 900;
        opts.tables_per_kind = 1;
        opts.kinds = vec![crate::model::Kind::A, crate::model::Kind::B, crate::model::Kind::D];
        opts.catalog_ops = false;
        out.cfg = cfg.clone();
    }
    let mut w = match World::create(cfg, opts, rng) {
        Ok(w) => w,
        Err(e) => return (out, Some(e)),
    };
    w.track_pins = true;
    if trace_on {
        w.trace = Some(vec![]);
    }
    w.be.start_recording();
    let mut o6 = C06Out {
        steps: 0,
        accountings: 0,
        last: Acct::default(),
        max_alloc: 0,
        max_pending: 0,
        drained: false,
        drain_commits: 0,
        counts: BTreeMap::new(),
        trace: None,
        cfg: w.cfg.clone(),
        cow_evals: 0,
    };
    let r = (|| -> R<()> {
        let cycles = w.rng.range(1, 4);
        for _ in 0..cycles {
            // a stretch of history
            let n = w.rng.range(2, 9);
            for _ in 0..n {
                let roll = w.rng.below(100);
                match roll {
                    0..=7 => {
                        if w.readers.len() < 3 {
                            w.open_reader()?;
                        }
                    }
                    8..=12 => w.drop_random_reader(),
                    13..=16 => w.drop_random_esp(),
                    17..=19 => {
                        // an application panic caught while a write transaction is live: the
                        // session leaks that transaction's pages, which must not survive a reopen
                        w.panic_txn()?;
                    }
                    _ => {
                        let plan = w.plan();
                        w.run_txn(&plan)?;
                    }
                }
            }
            // stop it one way or another
            let mode = w.rng.below(5);
            let stop: &'static str = match mode {
                0 => "clean close",
                1 => "crash right after a quick-repair commit",
                2 => "crash after ordinary commits that follow a quick-repair commit",
                3 => "crash with every issued write applied",
                _ => "crash at a random point with a random subset of unsynced writes",
            };
            *out.stops.entry(stop).or_insert(0) += 1;
            if let Some(t) = w.trace.as_mut() {
                t.push(format!("STOP: {stop}"));
            }
            match mode {
                0 => {
                    w.reopen()?;
                    // the file as it was closed (before this reopen touched it) is in the log base
                    out.closed_files_checked += 1;
                }
                _ => {
                    if mode == 1 || mode == 2 {
                        let mut p = w.plan();
                        p.durable = true;
                        p.quick_repair = true;
                        p.two_phase = true;
                        p.end = End::Commit;
                        p.psp_create = false;
                        p.psp_delete = None;
                        p.restore = None;
                        w.run_txn(&p)?;
                        if mode == 2 {
                            for _ in 0..w.rng.range(1, 3) {
                                let mut p = w.plan();
                                p.durable = true;
                                p.quick_repair = false;
                                p.end = End::Commit;
                                w.run_txn(&p)?;
                            }
                        }
                    }
                    let (base, log) = {
                        let st = w.be.lock();
                        (st.base.clone(), st.log.clone())
                    };
                    let (pos, img) = if mode == 4 && !log.is_empty() {
                        let pos = w.rng.range(1, log.len() as u64) as usize;
                        let sync_pos = log[..pos]
                            .iter()
                            .rposition(|e| matches!(e, crate::backend::Ev::Sync))
                            .map(|i| i + 1)
                            .unwrap_or(0);
                        let applied: Vec<usize> = (sync_pos..pos).filter(|_| w.rng.bool()).collect();
                        (pos, build_image(&base, &log, sync_pos, &applied, None))
                    } else {
                        (log.len(), w.be.image())
                    };
                    // which commit point did it recover to?
                    w.readers.clear();
                    w.esp.clear();
                    w.db = None;
                    let (floor, ceil) = window(&w.commits, pos);
                    let probe_be = crate::backend::MonBackend::from_image(img.clone());
                    let cfg = w.cfg.clone();
                    let pb = probe_be.clone();
                    let opened = guarded(move || cfg.builder().create_with_backend(pb));
                    let db = match opened {
                        Err(p) => return oracle(format!("panic opening after '{stop}': {}", p.short())),
                        Ok(Err(e)) => return oracle(format!("open after '{stop}' failed: {e}")),
                        Ok(Ok(db)) => db,
                    };
                    let got = dump_db(&db)?;
                    let psp_got = {
                        let txn = db.begin_write().map_err(se("begin_write"))?;
                        let s = list_psp(&txn)?;
                        txn.abort().map_err(se("abort"))?;
                        s
                    };
                    drop(db);
                    let mut matched = None;
                    for i in (floor..=ceil).rev() {
                        if *w.commits[i].contents == got
                            && w.commits[i].psp.keys().copied().collect::<BTreeSet<u64>>() == psp_got
                        {
                            matched = Some(i);
                            break;
                        }
                    }
                    let Some(mi) = matched else {
                        return oracle(format!("after '{stop}' the recovered contents match no admissible commit point"));
                    };
                    w.adopt_image(img, mi)?;
                }
            }
            out.cycles += 1;
            // immediately after the open: the allocation state must be exactly right
            acct_step(&w, &mut o6)?;
            let e = out.counts.entry("max.regions_at_open".into()).or_insert(0);
            *e = (*e).max(o6.last.regions);
            let with_pending = w.rng.bool();
            if with_pending {
                let mut p = w.plan();
                p.durable = false;
                p.end = End::Commit;
                p.psp_create = false;
                p.psp_delete = None;
                w.run_txn(&p)?;
            }
            for _ in 0..3 {
                w.check_integrity()?;
                out.integrity_checks += 1;
            }
            acct_step(&w, &mut o6)?;
            // writing after the reopen must not damage anything
            for _ in 0..w.rng.range(2, 10) {
                let plan = w.plan();
                w.run_txn(&plan)?;
                acct_step(&w, &mut o6)?;
            }
            w.verify_visible()?;
        }
        // final clean close: the file itself must carry the right allocator state
        if w.leak_latched {
            // a session that leaked through a caught panic does not record a clean shutdown; let
            // the documented repair run first so that the closed file can be judged as clean
            w.check_integrity()?;
        }
        w.close();
        let img = w.be.image();
        match check_closed_file(&img) {
            Ok(_) => out.closed_files_checked += 1,
            Err(e) => return oracle(format!("closed file: {e}")),
        }
        Ok(())
    })();
    w.close();
    out.accountings = o6.accountings;
    let max_regions = out.counts.get("max.regions_at_open").copied().unwrap_or(0);
    out.counts = w.counts.clone();
    out.counts.insert("max.regions_at_open".into(), max_regions);
    out.trace = w.trace.take();
    let mut fail = r.err();
    if fail.is_none() {
        if let Some(v) = w.be_violations.first() {
            fail = Some(Fail::Oracle(format!("backend contract: {v}")));
        }
    }
    (out, fail)
}

pub fn run(rep: &Report) {
    rep.set_rule(
        "case = up to 4 stop/open cycles on one storage: a stretch of history is stopped by a clean close, a crash right after a quick-repair commit, a crash after 1PC/2PC commits that follow an older quick-repair commit (the stale-snapshot case), a crash with every issued write applied, or a crash at a random log position with a random subset of unsynced writes; the storage is reopened through create_with_backend. Immediately after every open the ownership accountant compares the allocator bitmaps with independently computed reachability + pending-free lists (exact equality), check_integrity() is called 3 times with and without a pending non-durable commit (must be Ok(true) each time, contents unchanged), 2-10 further transactions are run with the accountant after each, and after the final clean close the allocator-state table stored in the file is decoded independently and compared with what the file's trees and freed lists need. evaluations = accountings + integrity checks; distinct_nontrivial = distinct cases with at least one crash-type stop",
    );
    rep.assume("crash images for the random-position stop use one random subset per stop; C01 enumerates subsets systematically");
    let n = match rep.tier {
        Tier::Quick => 4_000u64,
        Tier::Thorough => 60_000u64,
    };
    run_cases(
        rep,
        n,
        |case| {
            let replay = json!({"check": "C11", "seed": rep.seed, "case": case, "tier": rep.tier.name()});
            let trace_on = rep.replay_only.is_some() || rep.want_sample();
            let (out, fail) = one_case(rep.seed, case, trace_on);
            rep.eval(out.accountings + out.integrity_checks + 1);
            rep.count("stop_open_cycles", out.cycles);
            for (k, v) in &out.stops {
                rep.count(&format!("stopped_by.{k}"), *v);
            }
            rep.count("integrity_checks", out.integrity_checks);
            rep.count("accountings", out.accountings);
            rep.count("closed_files_decoded", out.closed_files_checked);
            let mut counts = out.counts.clone();
            if let Some(m) = counts.remove("max.regions_at_open") {
                rep.count_max("max.regions_at_open", m);
                if m > 256 {
                    rep.count("cases_with_more_than_256_regions", 1);
                }
            }
            rep.merge_counts(&counts);
            let crashes: u64 = out.stops.iter().filter(|(k, _)| k.starts_with("crash")).map(|(_, v)| *v).sum();
            if crashes > 0 {
                rep.distinct(mix(case, crashes));
            }
            match fail {
                Some(f) => {
                    if f.text().starts_with("machinery") {
                        rep.machinery(format!("case {case}: {}", f.text()));
                    } else {
                        rep.violation(
                            format!("reopen:{}", short_sig(f.text())),
                            format!("case {case} cfg {:?}: {}; trace tail {:?}", out.cfg, f.text(), tail(&out.trace)),
                            replay,
                        );
                    }
                }
                None => {
                    if rep.want_sample() {
                        rep.sample(json!({"case": case, "cfg": out.cfg.json(), "cycles": out.cycles, "stops": format!("{:?}", out.stops),
                            "integrity_checks": out.integrity_checks, "accountings": out.accountings}));
                    }
                }
            }
        },
        |case, p| {
            rep.violation(
                format!("panic:{}", p.location),
                format!("case {case}: {}", p.short()),
                json!({"check": "C11", "seed": rep.seed, "case": case, "tier": rep.tier.name()}),
            );
        },
    );
}
