//! C15 -- built-in key types order correctly and separators are valid.

use crate::fmt::KeyTy;
use crate::report::{Report, Tier, guarded};
use crate::rng::{Rng, hash_bytes, mix};
use redb::{Key, Value};
use serde_json::json;
use std::cmp::Ordering;
use std::fmt::Debug;

pub trait NK: 'static {
    type R: Key + 'static;
    type O: Ord + Clone + Debug + Send + Sync;
    fn real<'a>(o: &'a Self::O) -> <Self::R as Value>::SelfType<'a>;
    fn own(v: <Self::R as Value>::SelfType<'_>) -> Self::O;
    /// boundary pool (exhaustive pairs) and a random generator
    fn pool() -> Vec<Self::O>;
    fn random(rng: &mut Rng) -> Self::O;
    fn name() -> String {
        <Self::R as Value>::type_name().name().to_string()
    }
}

fn enc<N: NK>(o: &N::O) -> Vec<u8> {
    <N::R as Value>::as_bytes(&N::real(o)).as_ref().to_vec()
}

macro_rules! nk_int {
    ($name:ident, $t:ty) => {
        pub struct $name;
        impl NK for $name {
            type R = $t;
            type O = $t;
            fn real<'a>(o: &'a $t) -> $t {
                *o
            }
            fn own(v: $t) -> $t {
                v
            }
            fn pool() -> Vec<$t> {
                let mut v: Vec<$t> = vec![0, 1, 2, <$t>::MAX, <$t>::MIN, <$t>::MAX - 1, <$t>::MIN + 1];
                let bits = <$t>::BITS;
                for b in 0..bits {
                    let p = (1 as $t).wrapping_shl(b);
                    v.push(p);
                    v.push(p.wrapping_sub(1));
                    v.push(p.wrapping_add(1));
                    v.push(p.wrapping_neg());
                }
                // patterns that break "little-endian bytes as order"
                v.push(0x0100u64 as $t);
                v.push(0x00ffu64 as $t);
                v.push(0x0102_0304_0506_0708u64 as $t);
                v.push(0x0807_0605_0403_0201u64 as $t);
                v.sort();
                v.dedup();
                if bits <= 8 {
                    return (<$t>::MIN..=<$t>::MAX).collect();
                }
                v
            }
            fn random(rng: &mut Rng) -> $t {
                let a = rng.next() as u128 | ((rng.next() as u128) << 64);
                let sh = rng.below(<$t>::BITS as u64) as u32;
                (a as $t) >> sh
            }
        }
    };
}

nk_int!(NU8, u8);
nk_int!(NU16, u16);
nk_int!(NU32, u32);
nk_int!(NU64, u64);
nk_int!(NU128, u128);
nk_int!(NI8, i8);
nk_int!(NI16, i16);
nk_int!(NI32, i32);
nk_int!(NI64, i64);
nk_int!(NI128, i128);

pub struct NBool;
impl NK for NBool {
    type R = bool;
    type O = bool;
    fn real<'a>(o: &'a bool) -> bool {
        *o
    }
    fn own(v: bool) -> bool {
        v
    }
    fn pool() -> Vec<bool> {
        vec![false, true]
    }
    fn random(rng: &mut Rng) -> bool {
        rng.bool()
    }
}

pub struct NChar;
impl NK for NChar {
    type R = char;
    type O = char;
    fn real<'a>(o: &'a char) -> char {
        *o
    }
    fn own(v: char) -> char {
        v
    }
    fn pool() -> Vec<char> {
        vec![
            '\0', '\u{1}', 'a', 'b', '\u{7f}', '\u{80}', 'é', '\u{ff}', '\u{100}', '\u{7ff}', '\u{800}',
            '\u{d7ff}', '\u{e000}', '\u{ffff}', '\u{10000}', '\u{10ffff}',
        ]
    }
    fn random(rng: &mut Rng) -> char {
        loop {
            if let Some(c) = char::from_u32(rng.below(0x11_0000) as u32) {
                return c;
            }
        }
    }
}

const ALPHABET: [&str; 11] = [
    "", "a", "b", "\u{7f}", "\u{80}", "é", "\u{7ff}", "\u{800}", "\u{ffff}", "\u{10000}", "\u{10ffff}",
];

pub fn str_pool(max_chars: usize) -> Vec<String> {
    let mut out = vec![String::new()];
    let mut layer = vec![String::new()];
    for _ in 0..max_chars {
        let mut next = vec![];
        for s in &layer {
            for a in &ALPHABET[1..] {
                next.push(format!("{s}{a}"));
            }
        }
        out.extend(next.iter().cloned());
        layer = next;
    }
    out.sort();
    out.dedup();
    out
}

pub fn random_str(rng: &mut Rng) -> String {
    // engineered common prefix, then a (possibly multi-byte) character at the first difference
    let prefixes = ["", "common-prefix-", "common-prefix-that-is-quite-a-bit-longer/", "é\u{800}\u{10000}"];
    let mut s = String::from(*rng.pick(&prefixes));
    let n = rng.below(6);
    for _ in 0..n {
        s.push_str(*rng.pick::<&str>(&ALPHABET[1..]));
    }
    if rng.chance(1, 4) {
        let n = rng.below(40) as usize;
        s.push_str(&"x".repeat(n));
    }
    if rng.chance(1, 12) {
        // lengths around the boundaries of the length prefixes of composite encodings
        // (1 byte below 254, 3 bytes up to 65535, 5 bytes beyond)
        let n = if rng.chance(1, 40) { *rng.pick(&[65535usize, 65536]) } else { *rng.pick(&[253usize, 254, 255, 256, 300]) };
        let c = *rng.pick(&["b", "m", "y"]);
        s.push_str(&c.repeat(n.saturating_sub(s.len())));
    }
    s
}

/// strings whose encoded length sits on either side of the 1-byte / 3-byte / 5-byte length-prefix
/// boundaries used by variable-width tuples, arrays and Option
pub fn long_strs() -> Vec<String> {
    vec!["b".repeat(253), "b".repeat(254), "c".repeat(20), "m".repeat(300), "x".repeat(255)]
}

pub fn bytes_pool(max_len: usize) -> Vec<Vec<u8>> {
    let alpha = [0x00u8, 0x01, 0x7f, 0x80, 0xff];
    let mut out = vec![vec![]];
    let mut layer: Vec<Vec<u8>> = vec![vec![]];
    for _ in 0..max_len {
        let mut next = vec![];
        for s in &layer {
            for a in alpha {
                let mut t = s.clone();
                t.push(a);
                next.push(t);
            }
        }
        out.extend(next.iter().cloned());
        layer = next;
    }
    out.sort();
    out.dedup();
    out
}

pub fn random_bytes(rng: &mut Rng) -> Vec<u8> {
    let mut v = match rng.below(4) {
        0 => vec![],
        1 => vec![0xff; rng.below(12) as usize],
        2 => b"shared-prefix-shared-prefix-".to_vec(),
        _ => vec![0x00; rng.below(5) as usize],
    };
    let n = rng.below(6) as usize;
    v.extend(rng.bytes(n));
    if rng.chance(1, 3) {
        v.push(*rng.pick(&[0u8, 1, 0x7f, 0x80, 0xff]));
    }
    if rng.chance(1, 12) {
        let n = if rng.chance(1, 40) { *rng.pick(&[65535usize, 65536]) } else { *rng.pick(&[253usize, 254, 255, 256, 300]) };
        let b = *rng.pick(&[0u8, 0x61, 0xff]);
        v.resize(n.max(v.len()), b);
    }
    v
}

pub struct NStr;
impl NK for NStr {
    type R = &'static str;
    type O = String;
    fn real<'a>(o: &'a String) -> &'a str {
        o.as_str()
    }
    fn own(v: &str) -> String {
        v.to_string()
    }
    fn pool() -> Vec<String> {
        str_pool(3)
    }
    fn random(rng: &mut Rng) -> String {
        random_str(rng)
    }
}

pub struct NString;
impl NK for NString {
    type R = String;
    type O = String;
    fn real<'a>(o: &'a String) -> String {
        o.clone()
    }
    fn own(v: String) -> String {
        v
    }
    fn pool() -> Vec<String> {
        str_pool(2)
    }
    fn random(rng: &mut Rng) -> String {
        random_str(rng)
    }
}

pub struct NBytes;
impl NK for NBytes {
    type R = &'static [u8];
    type O = Vec<u8>;
    fn real<'a>(o: &'a Vec<u8>) -> &'a [u8] {
        o.as_slice()
    }
    fn own(v: &[u8]) -> Vec<u8> {
        v.to_vec()
    }
    fn pool() -> Vec<Vec<u8>> {
        bytes_pool(3)
    }
    fn random(rng: &mut Rng) -> Vec<u8> {
        random_bytes(rng)
    }
}

pub struct NArr4;
impl NK for NArr4 {
    type R = [u8; 4];
    type O = [u8; 4];
    fn real<'a>(o: &'a [u8; 4]) -> [u8; 4] {
        *o
    }
    fn own(v: [u8; 4]) -> [u8; 4] {
        v
    }
    fn pool() -> Vec<[u8; 4]> {
        let a = [0x00u8, 0x7f, 0x80, 0xff];
        let mut out = vec![];
        for w in a {
            for x in a {
                for y in a {
                    for z in a {
                        out.push([w, x, y, z]);
                    }
                }
            }
        }
        out
    }
    fn random(rng: &mut Rng) -> [u8; 4] {
        (rng.next() as u32).to_le_bytes()
    }
}

pub struct NOptU32;
impl NK for NOptU32 {
    type R = Option<u32>;
    type O = Option<u32>;
    fn real<'a>(o: &'a Option<u32>) -> Option<u32> {
        *o
    }
    fn own(v: Option<u32>) -> Option<u32> {
        v
    }
    fn pool() -> Vec<Option<u32>> {
        let mut v: Vec<Option<u32>> = vec![None];
        v.extend(NU32::pool().into_iter().map(Some));
        v
    }
    fn random(rng: &mut Rng) -> Option<u32> {
        if rng.chance(1, 8) { None } else { Some(NU32::random(rng)) }
    }
}

pub struct NOptStr;
impl NK for NOptStr {
    type R = Option<&'static str>;
    type O = Option<String>;
    fn real<'a>(o: &'a Option<String>) -> Option<&'a str> {
        o.as_deref()
    }
    fn own(v: Option<&str>) -> Option<String> {
        v.map(str::to_string)
    }
    fn pool() -> Vec<Option<String>> {
        let mut v: Vec<Option<String>> = vec![None];
        v.extend(str_pool(2).into_iter().map(Some));
        v
    }
    fn random(rng: &mut Rng) -> Option<String> {
        if rng.chance(1, 8) { None } else { Some(random_str(rng)) }
    }
}

pub struct NOptBytes;
impl NK for NOptBytes {
    type R = Option<&'static [u8]>;
    type O = Option<Vec<u8>>;
    fn real<'a>(o: &'a Option<Vec<u8>>) -> Option<&'a [u8]> {
        o.as_deref()
    }
    fn own(v: Option<&[u8]>) -> Option<Vec<u8>> {
        v.map(<[u8]>::to_vec)
    }
    fn pool() -> Vec<Option<Vec<u8>>> {
        let mut v: Vec<Option<Vec<u8>>> = vec![None];
        v.extend(bytes_pool(3).into_iter().map(Some));
        v
    }
    fn random(rng: &mut Rng) -> Option<Vec<u8>> {
        if rng.chance(1, 8) { None } else { Some(random_bytes(rng)) }
    }
}

pub struct NArrU16x3;
impl NK for NArrU16x3 {
    type R = [u16; 3];
    type O = [u16; 3];
    fn real<'a>(o: &'a [u16; 3]) -> [u16; 3] {
        *o
    }
    fn own(v: [u16; 3]) -> [u16; 3] {
        v
    }
    fn pool() -> Vec<[u16; 3]> {
        let a = [0u16, 1, 0xff, 0x100, 0x7fff, 0x8000, 0xffff];
        let mut out = vec![];
        for x in a {
            for y in a {
                for z in a {
                    out.push([x, y, z]);
                }
            }
        }
        out
    }
    fn random(rng: &mut Rng) -> [u16; 3] {
        [rng.next() as u16, rng.next() as u16 >> rng.below(16), rng.next() as u16]
    }
}

pub struct NArrStr2;
impl NK for NArrStr2 {
    type R = [&'static str; 2];
    type O = [String; 2];
    fn real<'a>(o: &'a [String; 2]) -> [&'a str; 2] {
        [o[0].as_str(), o[1].as_str()]
    }
    fn own(v: [&str; 2]) -> [String; 2] {
        [v[0].to_string(), v[1].to_string()]
    }
    fn pool() -> Vec<[String; 2]> {
        let p = str_pool(2);
        let small: Vec<&String> = p.iter().step_by(3).collect();
        let mut out = vec![];
        for a in &small {
            for b in &small {
                out.push([(*a).clone(), (*b).clone()]);
            }
        }
        out
    }
    fn random(rng: &mut Rng) -> [String; 2] {
        [random_str(rng), random_str(rng)]
    }
}

pub struct NArrBytes2;
impl NK for NArrBytes2 {
    type R = [&'static [u8]; 2];
    type O = [Vec<u8>; 2];
    fn real<'a>(o: &'a [Vec<u8>; 2]) -> [&'a [u8]; 2] {
        [o[0].as_slice(), o[1].as_slice()]
    }
    fn own(v: [&[u8]; 2]) -> [Vec<u8>; 2] {
        [v[0].to_vec(), v[1].to_vec()]
    }
    fn pool() -> Vec<[Vec<u8>; 2]> {
        let p = bytes_pool(2);
        let mut out = vec![];
        for a in &p {
            for b in &p {
                out.push([a.clone(), b.clone()]);
            }
        }
        out
    }
    fn random(rng: &mut Rng) -> [Vec<u8>; 2] {
        [random_bytes(rng), random_bytes(rng)]
    }
}

pub struct NTupU8U8;
impl NK for NTupU8U8 {
    type R = (u8, u8);
    type O = (u8, u8);
    fn real<'a>(o: &'a (u8, u8)) -> (u8, u8) {
        *o
    }
    fn own(v: (u8, u8)) -> (u8, u8) {
        v
    }
    fn pool() -> Vec<(u8, u8)> {
        let a = [0u8, 1, 0x7f, 0x80, 0xfe, 0xff];
        let mut out = vec![];
        for x in a {
            for y in a {
                out.push((x, y));
            }
        }
        out
    }
    fn random(rng: &mut Rng) -> (u8, u8) {
        (rng.next() as u8, rng.next() as u8)
    }
}

pub struct NTupU64U32;
impl NK for NTupU64U32 {
    type R = (u64, u32);
    type O = (u64, u32);
    fn real<'a>(o: &'a (u64, u32)) -> (u64, u32) {
        *o
    }
    fn own(v: (u64, u32)) -> (u64, u32) {
        v
    }
    fn pool() -> Vec<(u64, u32)> {
        let a = [0u64, 1, 0xff, 0x100, u64::MAX, 1 << 63, 0x0102_0304_0506_0708];
        let b = [0u32, 1, 0xff, 0x100, u32::MAX, 1 << 31];
        let mut out = vec![];
        for x in a {
            for y in b {
                out.push((x, y));
            }
        }
        out
    }
    fn random(rng: &mut Rng) -> (u64, u32) {
        (NU64::random(rng), NU32::random(rng))
    }
}

pub struct NTupU32Str;
impl NK for NTupU32Str {
    type R = (u32, &'static str);
    type O = (u32, String);
    fn real<'a>(o: &'a (u32, String)) -> (u32, &'a str) {
        (o.0, o.1.as_str())
    }
    fn own(v: (u32, &str)) -> (u32, String) {
        (v.0, v.1.to_string())
    }
    fn pool() -> Vec<(u32, String)> {
        let a = [0u32, 1, 0x100, u32::MAX];
        let mut out = vec![];
        for x in a {
            for s in str_pool(2).into_iter().step_by(2) {
                out.push((x, s));
            }
        }
        for s in long_strs() {
            out.push((1, s.clone()));
            out.push((0x100, s));
        }
        out
    }
    fn random(rng: &mut Rng) -> (u32, String) {
        (NU32::random(rng) >> 28, random_str(rng))
    }
}

pub struct NTupStrU32;
impl NK for NTupStrU32 {
    type R = (&'static str, u32);
    type O = (String, u32);
    fn real<'a>(o: &'a (String, u32)) -> (&'a str, u32) {
        (o.0.as_str(), o.1)
    }
    fn own(v: (&str, u32)) -> (String, u32) {
        (v.0.to_string(), v.1)
    }
    fn pool() -> Vec<(String, u32)> {
        let a = [0u32, 1, 0x100, u32::MAX];
        let mut out = vec![];
        for s in str_pool(2).into_iter().step_by(2) {
            for x in a {
                out.push((s.clone(), x));
            }
        }
        for s in long_strs() {
            out.push((s.clone(), 1));
            out.push((s, u32::MAX));
        }
        out
    }
    fn random(rng: &mut Rng) -> (String, u32) {
        (random_str(rng), NU32::random(rng))
    }
}

pub struct NTup3;
impl NK for NTup3 {
    type R = (&'static str, &'static [u8], i16);
    type O = (String, Vec<u8>, i16);
    fn real<'a>(o: &'a (String, Vec<u8>, i16)) -> (&'a str, &'a [u8], i16) {
        (o.0.as_str(), o.1.as_slice(), o.2)
    }
    fn own(v: (&str, &[u8], i16)) -> (String, Vec<u8>, i16) {
        (v.0.to_string(), v.1.to_vec(), v.2)
    }
    fn pool() -> Vec<(String, Vec<u8>, i16)> {
        let ss = ["", "a", "a\u{80}", "b"];
        let bs: [&[u8]; 4] = [&[], &[0], &[0, 0], &[0xff]];
        let is = [i16::MIN, -1, 0, 1, i16::MAX];
        let mut out = vec![];
        for s in ss {
            for b in bs {
                for i in is {
                    out.push((s.to_string(), b.to_vec(), i));
                }
            }
        }
        for s in long_strs() {
            out.push((s.clone(), vec![0], 0));
            out.push(("a".to_string(), s.into_bytes(), 1));
        }
        out
    }
    fn random(rng: &mut Rng) -> (String, Vec<u8>, i16) {
        (random_str(rng), random_bytes(rng), rng.next() as i16)
    }
}

struct TypeOut {
    pairs: u64,
    separators: u64,
    shortened: u64,
    triples: u64,
    m2_compared: u64,
    sig: u64,
    sample: Option<serde_json::Value>,
}

fn check_values<N: NK>(vals: &[N::O], triples: bool, out: &mut TypeOut) -> Result<(), String> {
    let kty = KeyTy::parse(1, &N::name());
    let encs: Vec<Vec<u8>> = vals.iter().map(enc::<N>).collect();
    // round trip
    for (v, e) in vals.iter().zip(&encs) {
        let back = N::own(<N::R as Value>::from_bytes(e));
        if &back != v {
            return Err(format!("{}: from_bytes(as_bytes({v:?})) = {back:?}", N::name()));
        }
        if let Some(w) = <N::R as Value>::fixed_width() {
            if e.len() != w {
                return Err(format!("{}: encoding of {v:?} has {} bytes, fixed_width() says {w}", N::name(), e.len()));
            }
        }
        if let Some(min) = <N::R as Key>::min_encoded_key() {
            if <N::R as Key>::compare(&min, e) == Ordering::Greater {
                return Err(format!("{}: min_encoded_key() sorts above {v:?}", N::name()));
            }
        }
    }
    for i in 0..vals.len() {
        for j in 0..vals.len() {
            let want = vals[i].cmp(&vals[j]);
            let got = <N::R as Key>::compare(&encs[i], &encs[j]);
            out.pairs += 1;
            if got != want {
                return Err(format!(
                    "{}: compare(enc({:?}), enc({:?})) = {got:?} but the values order {want:?}",
                    N::name(),
                    vals[i],
                    vals[j]
                ));
            }
            if kty.known() {
                if let Some(m2) = kty.compare(&encs[i], &encs[j]) {
                    out.m2_compared += 1;
                    if m2 != got {
                        return Err(format!(
                            "machinery: the harness comparator for {} disagrees with redb on {:?} vs {:?}",
                            N::name(),
                            vals[i],
                            vals[j]
                        ));
                    }
                }
            }
            if want == Ordering::Less {
                let (a, b) = (&encs[i], &encs[j]);
                let s = <N::R as Key>::separator(a, b);
                out.separators += 1;
                if s.len() < a.len() {
                    out.shortened += 1;
                    if out.sample.is_none() {
                        out.sample = Some(json!({"type": N::name(), "a": format!("{:?}", vals[i]), "b": format!("{:?}", vals[j]), "separator_hex": crate::model::hex(&s), "a_len": a.len(), "separator_len": s.len()}));
                    }
                }
                out.sig = hash_bytes(out.sig, &s);
                if s.len() > a.len() {
                    return Err(format!(
                        "{}: separator({:?}, {:?}) has {} bytes, longer than the left key ({})",
                        N::name(),
                        vals[i],
                        vals[j],
                        s.len(),
                        a.len()
                    ));
                }
                if <N::R as Key>::compare(a, &s) == Ordering::Greater {
                    return Err(format!("{}: separator({:?}, {:?}) sorts below the left key", N::name(), vals[i], vals[j]));
                }
                if <N::R as Key>::compare(&s, b) != Ordering::Less {
                    return Err(format!("{}: separator({:?}, {:?}) does not sort below the right key", N::name(), vals[i], vals[j]));
                }
                // a valid encoding of the same type: decodes and re-encodes to itself
                let dec = N::own(<N::R as Value>::from_bytes(&s));
                let re = enc::<N>(&dec);
                if re != s.as_ref() {
                    return Err(format!(
                        "{}: separator({:?}, {:?}) = {} is not a canonical encoding (decodes to {dec:?}, which encodes as {})",
                        N::name(),
                        vals[i],
                        vals[j],
                        crate::model::hex(&s),
                        crate::model::hex(&re)
                    ));
                }
                if kty.known() {
                    if let (Some(x), Some(y)) = (kty.compare(a, &s), kty.compare(&s, b)) {
                        if x == Ordering::Greater || y != Ordering::Less {
                            return Err(format!("machinery: harness comparator rejects redb's separator for {}", N::name()));
                        }
                    }
                }
                if triples {
                    // routing: every key at or below `a` must not sort above s, every key at or
                    // above `b` must sort above s
                    for k in 0..vals.len() {
                        out.triples += 1;
                        let c = <N::R as Key>::compare(&encs[k], &s);
                        if vals[k] <= vals[i] && c == Ordering::Greater {
                            return Err(format!(
                                "{}: key {:?} <= {:?} sorts above separator({:?}, {:?})",
                                N::name(), vals[k], vals[i], vals[i], vals[j]
                            ));
                        }
                        if vals[k] >= vals[j] && c != Ordering::Greater {
                            return Err(format!(
                                "{}: key {:?} >= {:?} does not sort above separator({:?}, {:?})",
                                N::name(), vals[k], vals[j], vals[i], vals[j]
                            ));
                        }
                    }
                }
            }
        }
    }
    Ok(())
}

fn run_type<N: NK>(rep: &Report, idx: u64) {
    let name = N::name();
    let (pool_cap, tri_cap, random_batches, batch) = match rep.tier {
        Tier::Quick => (1500usize, 140usize, 500u64, 80usize),
        Tier::Thorough => (3000usize, 260usize, 40_000u64, 120usize),
    };
    let mut out = TypeOut {
        pairs: 0,
        separators: 0,
        shortened: 0,
        triples: 0,
        m2_compared: 0,
        sig: idx,
        sample: None,
    };
    let replay = json!({"check": "C15", "seed": rep.seed, "case": idx, "tier": rep.tier.name()});
    let r = guarded(|| -> Result<(), String> {
        let mut pool = N::pool();
        pool.sort();
        pool.dedup();
        // exhaustive pairs over the boundary pool (strided down if very large)
        let stride = pool.len().div_ceil(pool_cap).max(1);
        let p: Vec<N::O> = pool.iter().step_by(stride).cloned().collect();
        check_values::<N>(&p, false, &mut out)?;
        // triples (transitivity / routing of separators) over a smaller pool
        let stride = pool.len().div_ceil(tri_cap).max(1);
        let p: Vec<N::O> = pool.iter().step_by(stride).cloned().collect();
        check_values::<N>(&p, true, &mut out)?;
        // random batches with engineered prefixes
        let mut rng = Rng::for_case(rep.seed, "C15", idx);
        for _ in 0..random_batches {
            let mut v: Vec<N::O> = (0..batch).map(|_| N::random(&mut rng)).collect();
            // neighbours: mutate a value slightly so that pairs share long prefixes
            let extra: Vec<N::O> = v.iter().take(batch / 4).cloned().collect();
            v.extend(extra);
            v.sort();
            v.dedup();
            let before = out.sig;
            check_values::<N>(&v, true, &mut out)?;
            if out.sig != before {
                rep.distinct(mix(out.sig, idx));
            }
        }
        Ok(())
    });
    rep.eval(out.pairs);
    rep.count(&format!("type.{name}.pairs"), out.pairs);
    rep.count(&format!("type.{name}.separators"), out.separators);
    rep.count(&format!("type.{name}.shortened_separators"), out.shortened);
    rep.count("pairs", out.pairs);
    rep.count("separators", out.separators);
    rep.count("separators_shorter_than_left_key", out.shortened);
    rep.count("routing_triples", out.triples);
    rep.count("harness_comparator_cross_checks", out.m2_compared);
    rep.count("types", 1);
    rep.distinct(mix(out.sig, idx));
    if let Some(s) = out.sample {
        rep.sample(s);
    }
    match r {
        Err(p) => rep.violation(
            format!("panic:{name}:{}", p.location),
            format!("type {name}: {}", p.short()),
            replay,
        ),
        Ok(Err(e)) => {
            let sig = if e.starts_with("machinery") { "machinery" } else { "order" };
            if sig == "machinery" {
                rep.machinery(e);
            } else {
                rep.violation(format!("{sig}:{name}:{}", crate::checks::c01::short_sig(&e)), e, replay);
            }
        }
        Ok(Ok(())) => {}
    }
}

pub fn run(rep: &Report) {
    rep.set_rule(
        "per built-in key type: (1) all ordered pairs of a boundary pool (exhaustive for bool/u8/i8; min/max/powers of two +-1/byte-swap patterns for wider integers; all strings of <= 3 characters over 11 boundary code points; all byte strings of length <= 3 over {00,01,7f,80,ff}; composites built from those) -- compare(enc(a),enc(b)) must equal a.cmp(b), from_bytes(as_bytes(a)) must equal a, and for a<b the separator s must satisfy a <= s < b, len(s) <= len(a), and decode+re-encode to itself; (2) triples: every pool key <= a must not sort above s and every key >= b must sort above s (routing); (3) random batches with engineered common prefixes and multi-byte characters at the first difference. evaluations = ordered pairs compared; distinct_nontrivial = distinct (key type, batch) signatures of the separator streams produced (a batch that computed no separator is not counted)",
    );
    rep.assume("f32/f64 are not Key types; uuid/chrono feature types are not compiled in the baseline configuration");
    let types: Vec<(u64, fn(&Report, u64))> = vec![
        (0, run_type::<NU8>),
        (1, run_type::<NU16>),
        (2, run_type::<NU32>),
        (3, run_type::<NU64>),
        (4, run_type::<NU128>),
        (5, run_type::<NI8>),
        (6, run_type::<NI16>),
        (7, run_type::<NI32>),
        (8, run_type::<NI64>),
        (9, run_type::<NI128>),
        (10, run_type::<NBool>),
        (11, run_type::<NChar>),
        (12, run_type::<NStr>),
        (13, run_type::<NString>),
        (14, run_type::<NBytes>),
        (15, run_type::<NArr4>),
        (16, run_type::<NOptU32>),
        (17, run_type::<NOptStr>),
        (18, run_type::<NOptBytes>),
        (19, run_type::<NArrU16x3>),
        (20, run_type::<NArrStr2>),
        (21, run_type::<NArrBytes2>),
        (22, run_type::<NTupU8U8>),
        (23, run_type::<NTupU64U32>),
        (24, run_type::<NTupU32Str>),
        (25, run_type::<NTupStrU32>),
        (26, run_type::<NTup3>),
    ];
    let only = rep.replay_only.as_ref().and_then(|r| r["case"].as_u64());
    std::thread::scope(|s| {
        for (idx, f) in &types {
            if let Some(o) = only {
                if o != *idx {
                    continue;
                }
            }
            s.spawn(move || f(rep, *idx));
        }
    });
}
