//! C07 -- savepoints restore exactly the captured state (histories dense in savepoint operations,
//! with the ownership accountant after every step and the crash enumerator over the same histories).

use crate::checks::c01::{short_sig, tail};
use crate::checks::c06::{C06Out, acct_step, drain};
use crate::crash::{CrashBudget, Enumerator};
use crate::ops::*;
use crate::own::Acct;
use crate::recover::{RecCtx, RecStats};
use crate::report::{Report, Tier, run_cases};
use crate::rng::{Rng, mix};
use crate::world::*;
use serde_json::json;
use std::collections::BTreeMap;

pub fn run(rep: &Report) {
    rep.set_rule(
        "case = one history dense in savepoint operations: ephemeral and persistent savepoints are created, restored (valid and invalidated ones, in durable and non-durable transactions, before and after other writes), deleted and dropped in any order between data transactions of all durabilities, aborts and clean reopens. The model fixes the allowed outcome of every call (InvalidSavepoint for a dirty transaction or an invalidated savepoint, ImmediateDurabilityRequired, refusal to lower durability after a persistent create/delete); after a restore the transaction must see exactly the captured contents, and after its commit so must every reader; later savepoints must be refused; an aborted restore must change nothing. After every step the ownership accountant must balance (no leak, no early free) and at the end everything must drain. For part of the cases the storage-operation log is crash-enumerated: each recovered image must list exactly the persistent savepoints of its commit point and restoring each of them must yield its snapshot. evaluations = savepoint operations + crash images; distinct_nontrivial = distinct cases with at least one committed restore",
    );
    rep.assume("histories are sampled; the crash model is the one of C01");
    let (n, crash_every) = match rep.tier {
        Tier::Quick => (4_000u64, 250u64),
        Tier::Thorough => (60_000u64, 100u64),
    };
    run_cases(
        rep,
        n,
        |case| {
            let replay = json!({"check": "C07", "seed": rep.seed, "case": case, "tier": rep.tier.name()});
            let trace_on = rep.replay_only.is_some() || rep.want_sample();
            let with_crash = case % crash_every == 0;
            let mut rng = Rng::for_case(rep.seed, "C07", case);
            let mut cfg = Cfg::pick(&mut rng);
            if cfg.page_size > 1024 {
                cfg.page_size = 1024;
            }
            let steps = rng.range(5, if with_crash { 9 } else { 30 });
            let mut opts = Opts::default();
            opts.savepoint_heavy = true;
            opts.max_ops = 12;
            let mut w = match World::create(cfg.clone(), opts, rng) {
                Ok(w) => w,
                Err(e) => {
                    rep.violation("create-failed", e.text().to_string(), replay);
                    return;
                }
            };
            w.track_pins = true;
            if trace_on {
                w.trace = Some(vec![]);
            }
            if with_crash {
                w.be.start_recording();
            }
            let mut o6 = C06Out {
                steps: 0,
                accountings: 0,
                last: Acct::default(),
                max_alloc: 0,
                max_pending: 0,
                drained: false,
                drain_commits: 0,
                counts: BTreeMap::new(),
                trace: None,
                cfg: cfg.clone(),
                cow_evals: 0,
            };
            let r = (|| -> R<()> {
                for _ in 0..steps {
                    let roll = w.rng.below(100);
                    match roll {
                        0..=7 => w.drop_random_esp(),
                        8..=11 => {
                            if w.readers.len() < 3 {
                                w.open_reader()?;
                            } else {
                                w.drop_random_reader();
                            }
                        }
                        12..=15 => w.reopen()?,
                        _ => {
                            let plan = w.plan();
                            let committed = w.run_txn(&plan)?;
                            if committed {
                                w.verify_visible()?;
                            }
                        }
                    }
                    w.verify_readers()?;
                    acct_step(&w, &mut o6)?;
                }
                Ok(())
            })();
            let mut fail = r.err();
            let sp_ops: u64 = w
                .counts
                .iter()
                .filter(|(k, _)| k.starts_with("sp."))
                .map(|(_, v)| *v)
                .sum();
            let restored = w.counts.get("sp.restored").copied().unwrap_or(0);
            let mut images = 0u64;
            if fail.is_none() && with_crash {
                w.close();
                w.mark_all_durable();
                let (base, log) = {
                    let st = w.be.lock();
                    (st.base.clone(), st.log.clone())
                };
                let mut ctx = RecCtx {
                    cfg: &w.cfg,
                    opts: &w.opts,
                    commits: &w.commits,
                    seed: rep.seed ^ case,
                    stats: RecStats::default(),
                    depth: 0,
                    deep_every: 0,
                    check_m2: true,
                    check_integrity: true,
                    rec_every: 0,
                    rec_cap: 0,
                };
                let mut en = Enumerator::new(&base, &log, CrashBudget::recursion(), rep.seed ^ (case << 3));
                let mut err = None;
                let cap = if rep.tier == Tier::Quick { 1200 } else { 6000 };
                let mut seen = 0u64;
                en.run(0, log.len(), &mut |ci, img| match ctx.check(ci, img, 0) {
                    Ok(()) => {
                        seen += 1;
                        seen < cap && !rep.out_of_time()
                    }
                    Err(e) => {
                        err = Some(format!("crash image {}: {e}", ci.describe()));
                        false
                    }
                });
                images = ctx.stats.images;
                rep.count("crash.images", images);
                rep.count("crash.savepoints_restored_after_recovery", ctx.stats.savepoints_restored);
                if let Some(e) = err {
                    fail = Some(Fail::Oracle(e));
                }
            } else if fail.is_none() {
                if let Err(e) = drain(&mut w, &mut o6) {
                    fail = Some(e);
                }
                w.close();
            } else {
                w.close();
            }
            rep.eval(sp_ops + images + 1);
            rep.merge_counts(&w.counts);
            rep.count("accountings", o6.accountings);
            if restored > 0 {
                rep.distinct(mix(case, restored));
            }
            match fail {
                Some(f) => {
                    if f.text().starts_with("machinery") {
                        rep.machinery(format!("case {case}: {}", f.text()));
                    } else {
                        rep.violation(
                            format!("savepoint:{}", short_sig(f.text())),
                            format!("case {case} cfg {:?}: {}; trace tail {:?}", cfg, f.text(), tail(&w.trace)),
                            replay,
                        );
                    }
                }
                None => {
                    if rep.want_sample() && restored > 0 {
                        rep.sample(json!({"case": case, "cfg": cfg.json(), "savepoint_operations": sp_ops, "restores_committed_or_aborted": restored,
                            "crash_images": images,
                            "trace_head": w.trace.as_ref().map(|t| t.iter().filter(|l| !l.contains(".insert") && !l.contains(".mm_") && !l.contains(".remove")).take(30).cloned().collect::<Vec<_>>())}));
                    }
                }
            }
        },
        |case, p| {
            rep.violation(
                format!("panic:{}", p.location),
                format!("case {case}: {}", p.short()),
                json!({"check": "C07", "seed": rep.seed, "case": case, "tier": rep.tier.name()}),
            );
        },
    );
}
