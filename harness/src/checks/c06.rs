//! C06 -- every page has exactly one owner; no leak, no early reuse. The ownership accountant (M3)
//! runs after every step of mixed histories; the copy-on-write guard (M1) runs at every write.

use crate::checks::c01::{short_sig, tail};
use crate::ops::*;
use crate::own::{Acct, account};
use crate::report::{Report, Tier, run_cases};
use crate::rng::{Rng, mix};
use crate::world::*;
use serde_json::json;
use std::collections::BTreeMap;

pub struct C06Out {
    pub steps: u64,
    pub accountings: u64,
    pub last: Acct,
    pub max_alloc: u64,
    pub max_pending: u64,
    pub drained: bool,
    pub drain_commits: u64,
    pub counts: BTreeMap<String, u64>,
    pub trace: Option<Vec<String>>,
    pub cfg: Cfg,
    pub cow_evals: u64,
}

pub fn acct_step(w: &World, out: &mut C06Out) -> R<()> {
    let pins = w.pins();
    match crate::own::account_opts(w.db(), &pins, w.leak_latched) {
        Ok(a) => {
            out.accountings += 1;
            out.max_alloc = out.max_alloc.max(a.allocated);
            out.max_pending = out.max_pending.max(a.pending_free);
            out.last = a;
            Ok(())
        }
        Err(e) if e.starts_with("machinery") => Err(Fail::Storage(e)),
        Err(e) => Err(Fail::Oracle(e)),
    }
}

/// Drop every pin and drain: after at most 3 empty durable commits nothing may be pending free.
pub fn drain(w: &mut World, out: &mut C06Out) -> R<()> {
    w.readers.clear();
    w.esp.clear();
    if !w.psp.is_empty() {
        let txn = w.db().begin_write().map_err(se("begin_write"))?;
        let ids: Vec<u64> = w.psp.keys().copied().collect();
        for id in ids {
            txn.delete_persistent_savepoint(id)
                .map_err(se("delete_persistent_savepoint"))?;
        }
        txn.commit().map_err(se("commit"))?;
        w.psp.clear();
        // bookkeeping of the model's commit log is not needed past this point
    }
    for i in 0..3 {
        let txn = w.db().begin_write().map_err(se("begin_write"))?;
        txn.commit().map_err(se("commit"))?;
        out.drain_commits = i + 1;
        acct_step(w, out)?;
        if out.last.pending_free == 0 {
            out.drained = true;
            return Ok(());
        }
    }
    oracle(format!(
        "{} pages are still pending free after every reader and savepoint was dropped and 3 empty durable commits were made",
        out.last.pending_free
    ))
}

pub fn one_case(seed: u64, case: u64, trace_on: bool, churn: bool) -> (C06Out, Option<Fail>) {
    let mut rng = Rng::for_case(seed, if churn { "C06churn" } else { "C06" }, case);
    let mut cfg = Cfg::pick(&mut rng);
    if cfg.page_size > 1024 {
        cfg.page_size = 1024;
    }
    if cfg.region_pages.is_none() {
        cfg.region_pages = Some(64);
    }
    let steps = if churn { 120 } else { rng.range(6, 30) };
    let mut out = C06Out {
        steps: 0,
        accountings: 0,
        last: Acct::default(),
        max_alloc: 0,
        max_pending: 0,
        drained: false,
        drain_commits: 0,
        counts: BTreeMap::new(),
        trace: None,
        cfg: cfg.clone(),
        cow_evals: 0,
    };
    let mut opts = Opts::default();
    opts.panics = true;
    if churn {
        opts.keyspace = 32;
        opts.kinds = vec![crate::model::Kind::A, crate::model::Kind::D];
        opts.tables_per_kind = 1;
        opts.catalog_ops = false;
    }
    let mut w = match World::create(cfg, opts, rng) {
        Ok(w) => w,
        Err(e) => return (out, Some(e)),
    };
    w.track_pins = true;
    if trace_on {
        w.trace = Some(vec![]);
    }
    w.be.set_sync_hook(crate::fmt::sync_hook(false));
    let r = (|| -> R<()> {
        acct_step(&w, &mut out)?;
        for _ in 0..steps {
            let roll = w.rng.below(100);
            match roll {
                0..=9 => {
                    if w.readers.len() < 5 {
                        w.open_reader()?;
                    }
                }
                10..=16 => w.drop_random_reader(),
                17..=21 => w.drop_random_esp(),
                22..=23 if !churn => w.reopen()?,
                24..=25 if !churn => w.check_integrity()?,
                26..=27 if !churn => w.compact()?,
                28 if !churn => w.panic_txn()?,
                _ => {
                    let plan = w.plan();
                    w.run_txn(&plan)?;
                }
            }
            out.steps += 1;
            acct_step(&w, &mut out)?;
            if let Some(v) = w.be.lock().violations.first() {
                return oracle(format!("copy-on-write guard: {v}"));
            }
        }
        w.verify_readers()?;
        drain(&mut w, &mut out)
    })();
    out.cow_evals = w.be.lock().protect_evals;
    w.close();
    let mut fail = r.err();
    if fail.is_none() {
        if let Some(v) = w.be_violations.first() {
            fail = Some(Fail::Oracle(format!("backend contract: {v}")));
        } else if let Some(e) = w.sync_errors.first() {
            fail = Some(Fail::Oracle(format!("format: {e}")));
        }
    }
    out.counts = w.counts.clone();
    out.trace = w.trace.take();
    (out, fail)
}

pub fn run(rep: &Report) {
    rep.set_rule(
        "case = one history (commits of every durability and strategy, aborts, savepoint create/restore/delete/drop, readers of random lifetime, reopen, check_integrity, compact; or a steady-churn history rewriting 32 keys 120 times) at 512/1024-byte pages and 32/64/256-page regions. After EVERY step the accountant takes the allocator bitmaps (hook H3) and recomputes, with the independent decoder over pages read as a transaction would see them (hook H4): pages reachable from the data root, from the system root, pending-free lists on disk and in memory. It requires: the three sets pairwise disjoint, allocated == their union (else leak / use-after-free), every page reachable from the last durable commit, from each live reader's and savepoint's root (recorded when it was created, re-verified by checksum) still allocated, allocation records naming only allocated pages. At the end all pins are dropped and <= 3 empty durable commits must leave nothing pending free. The monitoring backend additionally rejects any write into a page reachable from the last durable commit. evaluations = accountings; distinct_nontrivial = distinct cases that had pending-free pages at some step and drained to zero",
    );
    rep.assume("accounting is at order-0 granularity and only at quiescent points (no live write transaction); reading pages through the database warms its cache");
    rep.assume("'returns to its previous level' is restated as bounded progress: nothing pending free after all pins are gone and at most 3 empty durable commits");
    let (n, n_churn) = match rep.tier {
        Tier::Quick => (45_000u64, 1_000u64),
        Tier::Thorough => (300_000u64, 6_000u64),
    };
    run_cases(
        rep,
        n + n_churn,
        |case| {
            let churn = case >= n;
            let replay = json!({"check": "C06", "seed": rep.seed, "case": case, "tier": rep.tier.name()});
            let trace_on = rep.replay_only.is_some() || rep.want_sample();
            let (out, fail) = one_case(rep.seed, case, trace_on, churn);
            rep.eval(out.accountings.max(1));
            rep.count("steps", out.steps);
            rep.count(if churn { "cases.churn" } else { "cases.mixed" }, 1);
            rep.count_max("max.allocated_pages", out.max_alloc);
            rep.count_max("max.pending_free_pages", out.max_pending);
            rep.count_max("max.regions", out.last.regions);
            rep.count("pins_walked_last_step", out.last.pins_walked);
            rep.count("drain_commits", out.drain_commits);
            rep.count("cow_guard_evaluations", out.cow_evals);
            rep.merge_counts(&out.counts);
            if out.drained && out.max_pending > 0 {
                rep.distinct(mix(case, out.max_pending << 20 | out.max_alloc));
            }
            match fail {
                Some(f) => {
                    let kind = if matches!(f, Fail::Oracle(_)) { "ownership" } else { "error" };
                    if f.text().starts_with("machinery") {
                        rep.machinery(format!("case {case}: {}", f.text()));
                    } else {
                        rep.violation(
                            format!("{kind}:{}", short_sig(f.text())),
                            format!("case {case} cfg {:?}: {}; trace tail {:?}", out.cfg, f.text(), tail(&out.trace)),
                            replay,
                        );
                    }
                }
                None => {
                    if rep.want_sample() {
                        rep.sample(json!({"case": case, "kind": if churn {"steady churn"} else {"mixed history"}, "cfg": out.cfg.json(),
                            "steps": out.steps, "accountings": out.accountings, "max_allocated_pages": out.max_alloc,
                            "max_pending_free_pages": out.max_pending, "drain_commits_needed": out.drain_commits,
                            "trace_head": out.trace.as_ref().map(|t| t.iter().take(20).cloned().collect::<Vec<_>>())}));
                    }
                }
            }
        },
        |case, p| {
            rep.violation(
                format!("panic:{}", p.location),
                format!("case {case}: {}", p.short()),
                json!({"check": "C06", "seed": rep.seed, "case": case, "tier": rep.tier.name()}),
            );
        },
    );
}
