//! M4 -- reference models and the harness table schema.
//!
//! Keys and values live in the model in an *order-preserving* byte form ("model form"): u64 as
//! big-endian bytes, byte strings as themselves. `Col` converts between model form and the redb
//! type of a column.

use redb::{MultimapTable, MultimapTableDefinition, Table, TableDefinition, Value};
use std::collections::{BTreeMap, BTreeSet};

pub trait Col: 'static {
    type T: redb::Key + 'static;
    const FIXED: Option<usize>;
    fn real<'a>(m: &'a [u8]) -> <Self::T as Value>::SelfType<'a>;
    fn with<R>(m: &[u8], f: impl FnOnce(<Self::T as Value>::SelfType<'_>) -> R) -> R {
        f(Self::real(m))
    }
    fn model(v: <Self::T as Value>::SelfType<'_>) -> Vec<u8>;
}

pub struct ColU64;
pub struct ColBytes;

impl Col for ColU64 {
    type T = u64;
    const FIXED: Option<usize> = Some(8);
    fn real<'a>(m: &'a [u8]) -> u64 {
        u64::from_be_bytes(m.try_into().expect("u64 model key"))
    }
    fn model(v: u64) -> Vec<u8> {
        v.to_be_bytes().to_vec()
    }
}

impl Col for ColBytes {
    type T = &'static [u8];
    const FIXED: Option<usize> = None;
    fn real<'a>(m: &'a [u8]) -> &'a [u8] {
        m
    }
    fn model(v: &[u8]) -> Vec<u8> {
        v.to_vec()
    }
}

/// Table kinds of the history schema. The first character of a table name is its kind letter, so a
/// name determines the types to open it with.
#[derive(Clone, Copy, Debug, PartialEq, Eq, Hash, PartialOrd, Ord)]
pub enum Kind {
    /// Table<u64, &[u8]>
    A,
    /// Table<&[u8], &[u8]>
    B,
    /// Table<u64, u64>
    F,
    /// MultimapTable<u64, &[u8]>
    D,
    /// MultimapTable<&[u8], u64>
    E,
}

pub const ALL_KINDS: [Kind; 5] = [Kind::A, Kind::B, Kind::F, Kind::D, Kind::E];

impl Kind {
    pub fn letter(self) -> char {
        match self {
            Kind::A => 'A',
            Kind::B => 'B',
            Kind::F => 'F',
            Kind::D => 'D',
            Kind::E => 'E',
        }
    }
    pub fn of_name(name: &str) -> Option<Kind> {
        match name.chars().next()? {
            'A' => Some(Kind::A),
            'B' => Some(Kind::B),
            'F' => Some(Kind::F),
            'D' => Some(Kind::D),
            'E' => Some(Kind::E),
            _ => None,
        }
    }
    pub fn is_multimap(self) -> bool {
        matches!(self, Kind::D | Kind::E)
    }
    pub fn key_is_u64(self) -> bool {
        matches!(self, Kind::A | Kind::F | Kind::D)
    }
    pub fn value_is_u64(self) -> bool {
        matches!(self, Kind::F | Kind::E)
    }
    pub fn name(self, idx: usize) -> String {
        format!("{}{}", self.letter(), idx)
    }
}

pub enum OpenT<'t> {
    A(Table<'t, u64, &'static [u8]>),
    B(Table<'t, &'static [u8], &'static [u8]>),
    F(Table<'t, u64, u64>),
    D(MultimapTable<'t, u64, &'static [u8]>),
    E(MultimapTable<'t, &'static [u8], u64>),
}

pub fn def_a(name: &str) -> TableDefinition<'_, u64, &'static [u8]> {
    TableDefinition::new(name)
}
pub fn def_b(name: &str) -> TableDefinition<'_, &'static [u8], &'static [u8]> {
    TableDefinition::new(name)
}
pub fn def_f(name: &str) -> TableDefinition<'_, u64, u64> {
    TableDefinition::new(name)
}
pub fn def_d(name: &str) -> MultimapTableDefinition<'_, u64, &'static [u8]> {
    MultimapTableDefinition::new(name)
}
pub fn def_e(name: &str) -> MultimapTableDefinition<'_, &'static [u8], u64> {
    MultimapTableDefinition::new(name)
}

#[derive(Clone, Debug, PartialEq, Eq)]
pub enum TableModel {
    N(BTreeMap<Vec<u8>, Vec<u8>>),
    M(BTreeMap<Vec<u8>, BTreeSet<Vec<u8>>>),
}

impl TableModel {
    pub fn new(kind: Kind) -> Self {
        if kind.is_multimap() {
            TableModel::M(BTreeMap::new())
        } else {
            TableModel::N(BTreeMap::new())
        }
    }
    pub fn len(&self) -> u64 {
        match self {
            TableModel::N(m) => m.len() as u64,
            TableModel::M(m) => m.values().map(|s| s.len() as u64).sum(),
        }
    }
    pub fn n(&mut self) -> &mut BTreeMap<Vec<u8>, Vec<u8>> {
        match self {
            TableModel::N(m) => m,
            TableModel::M(_) => panic!("model: expected normal table"),
        }
    }
    pub fn m(&mut self) -> &mut BTreeMap<Vec<u8>, BTreeSet<Vec<u8>>> {
        match self {
            TableModel::M(m) => m,
            TableModel::N(_) => panic!("model: expected multimap table"),
        }
    }
}

/// name -> contents. An absent name means the table does not exist.
pub type Contents = BTreeMap<String, TableModel>;

pub fn contents_hash(c: &Contents) -> u64 {
    let mut h = 0x1234_5678u64;
    for (name, t) in c {
        h = crate::rng::hash_bytes(h, name.as_bytes());
        match t {
            TableModel::N(m) => {
                for (k, v) in m {
                    h = crate::rng::hash_bytes(h, k);
                    h = crate::rng::hash_bytes(h, v);
                }
            }
            TableModel::M(m) => {
                for (k, vs) in m {
                    h = crate::rng::hash_bytes(h, k);
                    for v in vs {
                        h = crate::rng::hash_bytes(h, v);
                    }
                }
            }
        }
    }
    h
}

/// Human-readable first difference between two contents (for witnesses)
pub fn diff_contents(expected: &Contents, got: &Contents) -> Option<String> {
    for (name, t) in expected {
        match got.get(name) {
            None => return Some(format!("table {name} missing")),
            Some(g) => {
                if g != t {
                    match (t, g) {
                        (TableModel::N(a), TableModel::N(b)) => {
                            for (k, v) in a {
                                match b.get(k) {
                                    None => {
                                        return Some(format!(
                                            "table {name}: key {} missing (expected value of {} bytes)",
                                            hex(k),
                                            v.len()
                                        ));
                                    }
                                    Some(w) if w != v => {
                                        return Some(format!(
                                            "table {name}: key {} has value {} expected {}",
                                            hex(k),
                                            hex(w),
                                            hex(v)
                                        ));
                                    }
                                    _ => {}
                                }
                            }
                            for k in b.keys() {
                                if !a.contains_key(k) {
                                    return Some(format!("table {name}: unexpected key {}", hex(k)));
                                }
                            }
                        }
                        (TableModel::M(a), TableModel::M(b)) => {
                            for (k, vs) in a {
                                match b.get(k) {
                                    None => {
                                        return Some(format!("multimap {name}: key {} missing", hex(k)));
                                    }
                                    Some(ws) if ws != vs => {
                                        return Some(format!(
                                            "multimap {name}: key {} has {} values expected {}",
                                            hex(k),
                                            ws.len(),
                                            vs.len()
                                        ));
                                    }
                                    _ => {}
                                }
                            }
                            for k in b.keys() {
                                if !a.contains_key(k) {
                                    return Some(format!("multimap {name}: unexpected key {}", hex(k)));
                                }
                            }
                        }
                        _ => return Some(format!("table {name}: kind differs")),
                    }
                    return Some(format!("table {name} differs"));
                }
            }
        }
    }
    for name in got.keys() {
        if !expected.contains_key(name) {
            return Some(format!("unexpected table {name}"));
        }
    }
    None
}

pub fn hex(b: &[u8]) -> String {
    let mut s = String::with_capacity(b.len() * 2 + 2);
    let show = b.len().min(24);
    for x in &b[..show] {
        s.push_str(&format!("{x:02x}"));
    }
    if b.len() > show {
        s.push_str(&format!("..({}B)", b.len()));
    }
    if b.is_empty() {
        s.push_str("<empty>");
    }
    s
}
