//! G2 -- the built-in key types exercised through tables, each with an order-preserving model form,
//! plus the table operations that only exist for particular value types.

use crate::model::*;
use crate::ops::*;
use crate::rng::Rng;
use redb::{ReadableTable, Table, Value};
use std::collections::BTreeMap;

pub trait KeyGen: Col {
    const NAME: &'static str;
    /// i-th key of a small key space, in model form
    fn key(i: u64) -> Vec<u8>;
}

// ---- &str ------------------------------------------------------------------------------------------

pub struct ColStr;
impl Col for ColStr {
    type T = &'static str;
    const FIXED: Option<usize> = None;
    fn real<'a>(m: &'a [u8]) -> &'a str {
        std::str::from_utf8(m).expect("model str")
    }
    fn model(v: &str) -> Vec<u8> {
        v.as_bytes().to_vec()
    }
}

pub fn str_key(i: u64) -> String {
    // no NUL characters (the array / tuple model forms use NUL as a separator)
    match i % 8 {
        0 => {
            if i == 0 {
                String::new()
            } else {
                format!("z{i}")
            }
        }
        1 => format!("{i}"),
        2 => format!("shared/long/prefix/that/goes/on/and/on/{:04}", i),
        3 => format!("shared/long/prefix/that/goes/on/and/on/é{}", i),
        4 => format!("shared/long/prefix/that/goes/on/and/on/\u{10000}{}", i % 40),
        5 => format!("{}\u{7ff}", "y".repeat((i % 70) as usize)),
        6 => format!("{}\u{800}{}", "y".repeat((i % 70) as usize), i),
        _ => format!("\u{10ffff}{}", i),
    }
}

impl KeyGen for ColStr {
    const NAME: &'static str = "&str";
    fn key(i: u64) -> Vec<u8> {
        str_key(i).into_bytes()
    }
}

impl KeyGen for ColU64 {
    const NAME: &'static str = "u64";
    fn key(i: u64) -> Vec<u8> {
        crate::world::key_u64(i)
    }
}

impl KeyGen for ColBytes {
    const NAME: &'static str = "&[u8]";
    fn key(i: u64) -> Vec<u8> {
        crate::world::key_bytes(i)
    }
}

// ---- i64 -------------------------------------------------------------------------------------------

pub struct ColI64;
impl Col for ColI64 {
    type T = i64;
    const FIXED: Option<usize> = Some(8);
    fn real<'a>(m: &'a [u8]) -> i64 {
        (u64::from_be_bytes(m.try_into().expect("i64 model key")) ^ (1 << 63)) as i64
    }
    fn model(v: i64) -> Vec<u8> {
        ((v as u64) ^ (1 << 63)).to_be_bytes().to_vec()
    }
}
impl KeyGen for ColI64 {
    const NAME: &'static str = "i64";
    fn key(i: u64) -> Vec<u8> {
        let v: i64 = match i % 6 {
            0 => i as i64,
            1 => -(i as i64),
            2 => i64::MIN + i as i64,
            3 => i64::MAX - i as i64,
            4 => (i as i64) << 33,
            _ => -((i as i64) << 33) - 1,
        };
        ColI64::model(v)
    }
}

// ---- u128 ------------------------------------------------------------------------------------------

pub struct ColU128;
impl Col for ColU128 {
    type T = u128;
    const FIXED: Option<usize> = Some(16);
    fn real<'a>(m: &'a [u8]) -> u128 {
        u128::from_be_bytes(m.try_into().expect("u128 model key"))
    }
    fn model(v: u128) -> Vec<u8> {
        v.to_be_bytes().to_vec()
    }
}
impl KeyGen for ColU128 {
    const NAME: &'static str = "u128";
    fn key(i: u64) -> Vec<u8> {
        let i = u128::from(i);
        let v = match i % 4 {
            0 => i,
            1 => i << 100,
            2 => u128::MAX - i,
            _ => i.wrapping_mul(0x9E37_79B9_7F4A_7C15_F39C_C060_5CED_C835),
        };
        v.to_be_bytes().to_vec()
    }
}

// ---- [u8; 16] --------------------------------------------------------------------------------------

pub struct ColArr16;
impl Col for ColArr16 {
    type T = [u8; 16];
    const FIXED: Option<usize> = Some(16);
    fn real<'a>(m: &'a [u8]) -> [u8; 16] {
        m.try_into().expect("[u8;16] model key")
    }
    fn model(v: [u8; 16]) -> Vec<u8> {
        v.to_vec()
    }
}
impl KeyGen for ColArr16 {
    const NAME: &'static str = "[u8;16]";
    fn key(i: u64) -> Vec<u8> {
        let mut v = [0u8; 16];
        match i % 3 {
            0 => v[8..].copy_from_slice(&i.to_be_bytes()),
            1 => v[..8].copy_from_slice(&i.to_le_bytes()),
            _ => {
                v = [0xff; 16];
                v[15] = i as u8;
                v[3] = (i >> 8) as u8;
            }
        }
        v.to_vec()
    }
}

// ---- (u64, u32) ------------------------------------------------------------------------------------

pub struct ColTupU64U32;
impl Col for ColTupU64U32 {
    type T = (u64, u32);
    const FIXED: Option<usize> = Some(12);
    fn real<'a>(m: &'a [u8]) -> (u64, u32) {
        (
            u64::from_be_bytes(m[..8].try_into().unwrap()),
            u32::from_be_bytes(m[8..12].try_into().unwrap()),
        )
    }
    fn model(v: (u64, u32)) -> Vec<u8> {
        let mut o = v.0.to_be_bytes().to_vec();
        o.extend_from_slice(&v.1.to_be_bytes());
        o
    }
}
impl KeyGen for ColTupU64U32 {
    const NAME: &'static str = "(u64,u32)";
    fn key(i: u64) -> Vec<u8> {
        let a = match i % 3 {
            0 => i / 3,
            1 => 7,
            _ => u64::MAX - (i % 5),
        };
        let b = (i.wrapping_mul(2654435761) >> 3) as u32;
        ColTupU64U32::model((a, if i % 4 == 0 { i as u32 } else { b }))
    }
}

// ---- (u32, &str) -----------------------------------------------------------------------------------

pub struct ColTupU32Str;
impl Col for ColTupU32Str {
    type T = (u32, &'static str);
    const FIXED: Option<usize> = None;
    fn real<'a>(m: &'a [u8]) -> (u32, &'a str) {
        (
            u32::from_be_bytes(m[..4].try_into().unwrap()),
            std::str::from_utf8(&m[4..]).expect("model str"),
        )
    }
    fn model(v: (u32, &str)) -> Vec<u8> {
        let mut o = v.0.to_be_bytes().to_vec();
        o.extend_from_slice(v.1.as_bytes());
        o
    }
}
impl KeyGen for ColTupU32Str {
    const NAME: &'static str = "(u32,&str)";
    fn key(i: u64) -> Vec<u8> {
        let a = (i % 5) as u32 * 0x0100_0001;
        let s = str_key(i / 2);
        let mut o = a.to_be_bytes().to_vec();
        o.extend_from_slice(s.as_bytes());
        o
    }
}

// ---- Option<&str> ----------------------------------------------------------------------------------

pub struct ColOptStr;
impl Col for ColOptStr {
    type T = Option<&'static str>;
    const FIXED: Option<usize> = None;
    fn real<'a>(m: &'a [u8]) -> Option<&'a str> {
        if m[0] == 0 {
            None
        } else {
            Some(std::str::from_utf8(&m[1..]).expect("model str"))
        }
    }
    fn model(v: Option<&str>) -> Vec<u8> {
        match v {
            None => vec![0],
            Some(s) => {
                let mut o = vec![1];
                o.extend_from_slice(s.as_bytes());
                o
            }
        }
    }
}
impl KeyGen for ColOptStr {
    const NAME: &'static str = "Option<&str>";
    fn key(i: u64) -> Vec<u8> {
        if i % 17 == 0 {
            vec![0]
        } else {
            let mut o = vec![1];
            o.extend_from_slice(str_key(i).as_bytes());
            o
        }
    }
}

// ---- [&str; 2] -------------------------------------------------------------------------------------

pub struct ColStrArr2;
impl Col for ColStrArr2 {
    type T = [&'static str; 2];
    const FIXED: Option<usize> = None;
    fn real<'a>(m: &'a [u8]) -> [&'a str; 2] {
        let p = m.iter().position(|b| *b == 0).expect("separator");
        [
            std::str::from_utf8(&m[..p]).expect("model str"),
            std::str::from_utf8(&m[p + 1..]).expect("model str"),
        ]
    }
    fn model(v: [&str; 2]) -> Vec<u8> {
        let mut o = v[0].as_bytes().to_vec();
        o.push(0);
        o.extend_from_slice(v[1].as_bytes());
        o
    }
}
impl KeyGen for ColStrArr2 {
    const NAME: &'static str = "[&str;2]";
    fn key(i: u64) -> Vec<u8> {
        let a = str_key(i % 7 + 8 * (i % 3));
        let b = str_key(i / 3);
        let mut o = a.into_bytes();
        o.push(0);
        o.extend_from_slice(b.as_bytes());
        o
    }
}

// ---- value-type specific operations ----------------------------------------------------------------

pub fn n_insert_reserve<KC: Col>(
    t: &mut Table<'_, KC::T, &'static [u8]>,
    m: &mut BTreeMap<Vec<u8>, Vec<u8>>,
    k: &[u8],
    v: &[u8],
) -> R<()> {
    {
        let mut g = KC::with(k, |kk| t.insert_reserve(kk, v.len())).map_err(se("insert_reserve"))?;
        let buf: &mut [u8] = g.as_mut();
        ensure!(
            buf.len() == v.len(),
            "insert_reserve({}) handed out {} bytes, asked for {}",
            v.len(),
            buf.len(),
            v.len()
        );
        buf.copy_from_slice(v);
    }
    m.insert(k.to_vec(), v.to_vec());
    Ok(())
}

pub fn n_get_mut<KC: Col, VC: Col>(
    t: &mut Table<'_, KC::T, VC::T>,
    m: &mut BTreeMap<Vec<u8>, Vec<u8>>,
    k: &[u8],
    v: &[u8],
    replace: bool,
) -> R<()> {
    let g = KC::with(k, |kk| t.get_mut(kk)).map_err(se("get_mut"))?;
    match (g, m.get_mut(k)) {
        (None, None) => Ok(()),
        (Some(mut g), Some(mv)) => {
            let cur = VC::model(g.value());
            ensure!(&cur == mv, "get_mut({}) shows value {}, model {}", hex(k), hex(&cur), hex(mv));
            if replace {
                VC::with(v, |vv| g.insert(vv)).map_err(se("AccessGuardMut::insert"))?;
                let after = VC::model(g.value());
                ensure!(
                    after == v,
                    "AccessGuardMut::insert: guard shows {} after writing {}",
                    hex(&after),
                    hex(v)
                );
                *mv = v.to_vec();
            }
            Ok(())
        }
        (Some(_), None) => oracle(format!("get_mut({}) found a value the model does not have", hex(k))),
        (None, Some(_)) => oracle(format!("get_mut({}) found nothing, model has a value", hex(k))),
    }
}

/// entry API: or_insert / and_modify / occupied remove / vacant insert
pub fn n_entry<KC: Col, VC: Col>(
    t: &mut Table<'_, KC::T, VC::T>,
    m: &mut BTreeMap<Vec<u8>, Vec<u8>>,
    k: &[u8],
    v: &[u8],
    mode: u64,
) -> R<()> {
    let e = t.entry(KC::real(k)).map_err(se("entry"))?;
    let occupied = matches!(e, redb::Entry::Occupied(_));
    ensure!(
        occupied == m.contains_key(k),
        "entry({}) occupied={occupied}, model {}",
        hex(k),
        m.contains_key(k)
    );
    match mode % 4 {
        0 => {
            // or_insert
            let g = VC::with(v, |vv| e.or_insert(vv)).map_err(se("or_insert"))?;
            let shown = VC::model(g.value());
            let exp = m.entry(k.to_vec()).or_insert_with(|| v.to_vec()).clone();
            ensure!(shown == exp, "or_insert({}) shows {}, model {}", hex(k), hex(&shown), hex(&exp));
        }
        1 => {
            // and_modify + or_insert
            let e = e
                .and_modify(|g| VC::with(v, |vv| g.insert(vv)))
                .map_err(se("and_modify"))?;
            if let Some(mv) = m.get_mut(k) {
                *mv = v.to_vec();
            }
            drop(e);
        }
        2 => match e {
            redb::Entry::Occupied(o) => {
                let g = o.remove().map_err(se("OccupiedEntry::remove"))?;
                let old = VC::model(g.value());
                let exp = m.remove(k).unwrap();
                ensure!(old == exp, "OccupiedEntry::remove({}) returned {}, model {}", hex(k), hex(&old), hex(&exp));
            }
            redb::Entry::Vacant(vac) => {
                let g = VC::with(v, |vv| vac.insert(vv)).map_err(se("VacantEntry::insert"))?;
                let shown = VC::model(g.value());
                ensure!(shown == v, "VacantEntry::insert shows {}", hex(&shown));
                m.insert(k.to_vec(), v.to_vec());
            }
        },
        _ => match e {
            redb::Entry::Occupied(mut o) => {
                let cur = VC::model(o.get().map_err(se("OccupiedEntry::get"))?.value());
                ensure!(Some(&cur) == m.get(k), "OccupiedEntry::get({}) = {}", hex(k), hex(&cur));
                let old = VC::with(v, |vv| o.insert(vv).map(|g| VC::model(g.value())))
                    .map_err(se("OccupiedEntry::insert"))?;
                let exp = m.insert(k.to_vec(), v.to_vec()).unwrap();
                ensure!(old == exp, "OccupiedEntry::insert({}) returned old {}, model {}", hex(k), hex(&old), hex(&exp));
            }
            redb::Entry::Vacant(vac) => {
                let kk = KC::model(vac.into_key());
                ensure!(kk == k, "VacantEntry::into_key returned {}", hex(&kk));
            }
        },
    }
    Ok(())
}

/// Compare a whole table with the model through every read path.
pub fn n_verify_all<KC: Col, VC: Col, T: ReadableTable<KC::T, VC::T>>(
    t: &T,
    m: &BTreeMap<Vec<u8>, Vec<u8>>,
) -> R<()> {
    let got = n_scan_all::<KC, VC, T>(t)?;
    if &got != m {
        let mut a = Contents::new();
        let mut b = Contents::new();
        a.insert("t".into(), TableModel::N(m.clone()));
        b.insert("t".into(), TableModel::N(got));
        return oracle(format!(
            "table contents differ from the sorted-map model: {}",
            diff_contents(&a, &b).unwrap_or_default()
        ));
    }
    // reverse iteration
    let mut rev: Vec<Vec<u8>> = vec![];
    for e in t.iter().map_err(se("iter"))?.rev() {
        let (k, _) = e.map_err(se("iter rev"))?;
        rev.push(KC::model(k.value()));
    }
    let exp: Vec<Vec<u8>> = m.keys().rev().cloned().collect();
    ensure!(rev == exp, "reverse iteration differs from the model ({} vs {} keys)", rev.len(), exp.len());
    n_first_last::<KC, VC, T>(t, m)?;
    n_len::<KC, VC, T>(t, m)?;
    Ok(())
}

pub fn pick_key<KC: KeyGen>(rng: &mut Rng, keyspace: u64) -> Vec<u8> {
    KC::key(rng.below(keyspace))
}

#[allow(dead_code)]
fn _assert_value_bounds<V: Value>() {}

// ---- big keys (up to several pages): &[u8] and &str ------------------------------------------------
// "keys and values of any size from empty to many pages": the ordinary pools stop at ~150 bytes. These
// two share the stored types &[u8] / &str but draw lengths around 512, 1024, 4096 bytes and beyond, so
// that at every configured page size some keys exceed a page (multi-page leaves, branch pages that
// hold page-sized routing keys, separators that cannot be shortened because keys differ at the end).

fn big_len(i: u64) -> usize {
    const L: [usize; 14] = [0, 3, 90, 170, 250, 254, 255, 300, 505, 520, 1020, 1500, 4090, 4100];
    if i % 97 == 96 {
        return 9000 + (i % 7) as usize;
    }
    L[(i % 14) as usize] + ((i / 14) % 3) as usize
}

pub struct ColBytesBig;
impl Col for ColBytesBig {
    type T = &'static [u8];
    const FIXED: Option<usize> = None;
    fn real<'a>(m: &'a [u8]) -> &'a [u8] {
        m
    }
    fn model(v: &[u8]) -> Vec<u8> {
        v.to_vec()
    }
}
impl KeyGen for ColBytesBig {
    const NAME: &'static str = "&[u8] (big)";
    fn key(i: u64) -> Vec<u8> {
        let n = big_len(i);
        let id = i.to_be_bytes();
        let mut v = vec![[0x00u8, 0x61, 0xff][(i % 3) as usize]; n];
        if (i / 3) % 2 == 0 {
            // distinguishing bytes at the end: long shared prefixes
            let k = n.min(8);
            v[n - k..].copy_from_slice(&id[8 - k..]);
            if n < 8 {
                v.extend_from_slice(&id);
            }
        } else {
            // distinguishing bytes at the start: separators shorten to almost nothing
            let mut w = id.to_vec();
            w.extend_from_slice(&v);
            v = w;
        }
        v
    }
}

pub struct ColStrBig;
impl Col for ColStrBig {
    type T = &'static str;
    const FIXED: Option<usize> = None;
    fn real<'a>(m: &'a [u8]) -> &'a str {
        std::str::from_utf8(m).expect("model str")
    }
    fn model(v: &str) -> Vec<u8> {
        v.as_bytes().to_vec()
    }
}
impl KeyGen for ColStrBig {
    const NAME: &'static str = "&str (big)";
    fn key(i: u64) -> Vec<u8> {
        let n = big_len(i);
        let filler = ["a", "é", "\u{800}", "\u{10000}"][(i % 4) as usize];
        let mut s = String::new();
        if (i / 4) % 2 == 1 {
            s.push_str(&format!("{i:020}"));
        }
        while s.len() + filler.len() <= n {
            s.push_str(filler);
        }
        if (i / 4) % 2 == 0 {
            s.push_str(&format!("{i:020}"));
        }
        s.into_bytes()
    }
}
