//! Crash plane of M1: reconstruct the storage states a crash could leave behind.
//!
//! Model (docs/design.md "Assumptions about underlying media"): completed `sync_data` makes every
//! earlier write durable; each write issued since the last completed sync is independently
//! dropped, applied, or torn (any subset of its bytes applied -- only single-byte atomicity and
//! powersafe overwrite are assumed); each pending `set_len` is persisted or not; a write past the
//! current end extends the file with zeros.

use crate::backend::{Ev, apply_ev};
use crate::rng::{Rng, hash_bytes, mix};
use std::collections::HashSet;

#[derive(Clone, Debug)]
pub struct CrashBudget {
    /// enumerate all subsets of a window when it has at most this many pending operations
    pub exhaustive_w: usize,
    /// random subsets per position for larger windows
    pub random_subsets: usize,
    /// single-drop / single-keep variants per position for larger windows
    pub singles: usize,
    /// torn variants of the last write per position
    pub tears: usize,
    /// hard cap of images per position
    pub per_pos_cap: usize,
    /// only every n-th position is expanded beyond the two basic images (1 = every position)
    pub pos_stride: usize,
}

impl CrashBudget {
    pub fn quick() -> Self {
        CrashBudget {
            exhaustive_w: 4,
            random_subsets: 3,
            singles: 2,
            tears: 2,
            per_pos_cap: 20,
            pos_stride: 1,
        }
    }
    pub fn thorough() -> Self {
        CrashBudget {
            exhaustive_w: 9,
            random_subsets: 24,
            singles: 12,
            tears: 10,
            per_pos_cap: 600,
            pos_stride: 1,
        }
    }
    pub fn recursion() -> Self {
        CrashBudget {
            exhaustive_w: 3,
            random_subsets: 2,
            singles: 2,
            tears: 2,
            per_pos_cap: 8,
            pos_stride: 1,
        }
    }
}

#[derive(Clone, Debug)]
pub struct CrashImage {
    /// number of log events issued when the crash struck
    pub pos: usize,
    /// position of the last completed sync before `pos`
    pub sync_pos: usize,
    /// indices (into the log) of the pending operations that were applied
    pub applied: Vec<usize>,
    /// pending operations in the window
    pub window: usize,
    /// how the last applied write was torn: (log index, description)
    pub tear: Option<(usize, String)>,
    pub policy: &'static str,
}

impl CrashImage {
    pub fn describe(&self) -> serde_json::Value {
        serde_json::json!({
            "pos": self.pos, "sync_pos": self.sync_pos, "window": self.window,
            "applied": self.applied, "tear": self.tear.as_ref().map(|t| format!("{}:{}", t.0, t.1)),
            "policy": self.policy,
        })
    }
    pub fn signature(&self) -> u64 {
        let mut h = mix(self.pos as u64, self.sync_pos as u64);
        for a in &self.applied {
            h = mix(h, *a as u64);
        }
        if let Some((i, d)) = &self.tear {
            h = mix(h, *i as u64);
            h = hash_bytes(h, d.as_bytes());
        }
        h
    }
}

#[derive(Clone, Debug)]
enum Tear {
    Prefix(usize),
    Suffix(usize),
    Mask(u64),
}

impl Tear {
    fn describe(&self) -> String {
        match self {
            Tear::Prefix(k) => format!("prefix{k}"),
            Tear::Suffix(k) => format!("suffix{k}"),
            Tear::Mask(m) => format!("mask{m:x}"),
        }
    }
    fn apply(&self, img: &mut Vec<u8>, off: u64, data: &[u8]) {
        let end = off as usize + data.len();
        if img.len() < end {
            img.resize(end, 0);
        }
        match self {
            Tear::Prefix(k) => {
                img[off as usize..off as usize + k].copy_from_slice(&data[..*k]);
            }
            Tear::Suffix(k) => {
                img[off as usize + k..end].copy_from_slice(&data[*k..]);
            }
            Tear::Mask(seed) => {
                let mut r = Rng::new(*seed);
                let mut bits = 0u64;
                for (i, b) in data.iter().enumerate() {
                    if i % 64 == 0 {
                        bits = r.next();
                    }
                    if bits & (1 << (i % 64)) != 0 {
                        img[off as usize + i] = *b;
                    }
                }
            }
        }
    }
}

pub struct Enumerator<'a> {
    pub base: &'a [u8],
    pub log: &'a [Ev],
    pub budget: CrashBudget,
    pub seed: u64,
    pub images: u64,
    pub windows: u64,
    pub max_window: usize,
    pub exhaustive_windows: u64,
    pub sampled_windows: u64,
    pub torn_images: u64,
    pub setlen_in_window: u64,
}

/// Rebuild one specific crash image (used by replay).
pub fn build_image(base: &[u8], log: &[Ev], sync_pos: usize, applied: &[usize], tear: Option<(usize, &str)>) -> Vec<u8> {
    let mut img = base.to_vec();
    for ev in &log[..sync_pos] {
        apply_ev(&mut img, ev);
    }
    for &i in applied {
        if let Some((ti, desc)) = tear {
            if ti == i {
                if let Ev::Write { off, data } = &log[i] {
                    parse_tear(desc).apply(&mut img, *off, data);
                    continue;
                }
            }
        }
        apply_ev(&mut img, &log[i]);
    }
    img
}

fn parse_tear(s: &str) -> Tear {
    if let Some(k) = s.strip_prefix("prefix") {
        Tear::Prefix(k.parse().unwrap())
    } else if let Some(k) = s.strip_prefix("suffix") {
        Tear::Suffix(k.parse().unwrap())
    } else {
        Tear::Mask(u64::from_str_radix(s.strip_prefix("mask").unwrap(), 16).unwrap())
    }
}

impl<'a> Enumerator<'a> {
    pub fn new(base: &'a [u8], log: &'a [Ev], budget: CrashBudget, seed: u64) -> Self {
        Enumerator {
            base,
            log,
            budget,
            seed,
            images: 0,
            windows: 0,
            max_window: 0,
            exhaustive_windows: 0,
            sampled_windows: 0,
            torn_images: 0,
            setlen_in_window: 0,
        }
    }

    /// Visit crash images for crash positions in `from..=to` (positions count issued events).
    /// `visit` returns false to stop.
    pub fn run(
        &mut self,
        from: usize,
        to: usize,
        visit: &mut dyn FnMut(&CrashImage, Vec<u8>) -> bool,
    ) {
        let mut durable = self.base.to_vec();
        let mut sync_pos = 0usize;
        let mut pending: Vec<usize> = vec![];
        let mut seen: HashSet<u64> = HashSet::new();
        let to = to.min(self.log.len());
        // position 0: nothing issued since base
        if from == 0 {
            let ci = CrashImage {
                pos: 0,
                sync_pos: 0,
                applied: vec![],
                window: 0,
                tear: None,
                policy: "durable",
            };
            self.images += 1;
            if !visit(&ci, durable.clone()) {
                return;
            }
        }
        for i in 0..to {
            let pos = i + 1;
            match &self.log[i] {
                Ev::Sync => {
                    for &p in &pending {
                        apply_ev(&mut durable, &self.log[p]);
                    }
                    if !pending.is_empty() {
                        self.windows += 1;
                        self.max_window = self.max_window.max(pending.len());
                        if pending.len() <= self.budget.exhaustive_w {
                            self.exhaustive_windows += 1;
                        } else {
                            self.sampled_windows += 1;
                        }
                    }
                    pending.clear();
                    sync_pos = pos;
                    if pos >= from {
                        let ci = CrashImage {
                            pos,
                            sync_pos,
                            applied: vec![],
                            window: 0,
                            tear: None,
                            policy: "durable",
                        };
                        self.images += 1;
                        if !visit(&ci, durable.clone()) {
                            return;
                        }
                    }
                    continue;
                }
                Ev::SetLen(_) => {
                    self.setlen_in_window += 1;
                    pending.push(i);
                }
                Ev::Write { .. } => pending.push(i),
            }
            if pos < from {
                continue;
            }
            // images in which the crash strikes after event i was issued (and before the next):
            // every subset of the earlier pending events combined with event i applied / torn. The
            // subsets without event i were produced at the previous position.
            let w = pending.len();
            let earlier = &pending[..w - 1];
            let mut subsets: Vec<(Vec<usize>, &'static str)> = vec![];
            let mut r = Rng::new(mix(self.seed, pos as u64));
            let expand = self.budget.pos_stride <= 1 || pos % self.budget.pos_stride == 0;
            if w - 1 <= self.budget.exhaustive_w {
                for mask in 0..(1u64 << (w - 1)) {
                    let s: Vec<usize> = earlier
                        .iter()
                        .enumerate()
                        .filter(|(b, _)| mask & (1 << b) != 0)
                        .map(|(_, x)| *x)
                        .collect();
                    subsets.push((s, "exhaustive"));
                }
            } else {
                subsets.push((earlier.to_vec(), "all"));
                subsets.push((vec![], "last-only"));
                if expand {
                    let is_hdr = |x: &usize| matches!(&self.log[*x], Ev::Write { off, .. } if *off == 0);
                    subsets.push((
                        earlier.iter().copied().filter(|x| !is_hdr(x)).collect(),
                        "all-but-header",
                    ));
                    subsets.push((
                        earlier.iter().copied().filter(is_hdr).collect(),
                        "header-only",
                    ));
                    for _ in 0..self.budget.singles {
                        let j = r.usize(earlier.len());
                        let mut s = earlier.to_vec();
                        s.remove(j);
                        subsets.push((s, "single-dropped"));
                        subsets.push((vec![earlier[r.usize(earlier.len())]], "single-kept"));
                    }
                    // prefixes and suffixes of the issue order
                    let cut = r.usize(earlier.len());
                    subsets.push((earlier[..cut].to_vec(), "prefix"));
                    subsets.push((earlier[cut..].to_vec(), "suffix"));
                    for _ in 0..self.budget.random_subsets {
                        let p = r.range(1, 7);
                        let s: Vec<usize> =
                            earlier.iter().copied().filter(|_| r.below(8) < p).collect();
                        subsets.push((s, "random"));
                    }
                }
            }
            let mut produced = 0usize;
            for (mut s, policy) in subsets {
                if produced >= self.budget.per_pos_cap {
                    break;
                }
                s.push(i);
                let ci = CrashImage {
                    pos,
                    sync_pos,
                    applied: s,
                    window: w,
                    tear: None,
                    policy,
                };
                if !seen.insert(ci.signature()) {
                    continue;
                }
                let mut img = durable.clone();
                for &x in &ci.applied {
                    apply_ev(&mut img, &self.log[x]);
                }
                self.images += 1;
                produced += 1;
                if !visit(&ci, img) {
                    return;
                }
            }
            // torn variants of the last write, over "all earlier applied" and "none earlier applied"
            if let Ev::Write { off, data } = &self.log[i] {
                if data.len() > 1 && expand {
                    let mut tears: Vec<Tear> = vec![];
                    let is_header = *off == 0;
                    let n = if is_header {
                        self.budget.tears * 2
                    } else {
                        self.budget.tears
                    };
                    for t in 0..n {
                        let limit = if is_header { data.len().min(320) } else { data.len() };
                        match t % 3 {
                            0 => tears.push(Tear::Prefix(r.range(1, limit as u64 - 1) as usize)),
                            1 => tears.push(Tear::Suffix(r.range(1, limit as u64 - 1) as usize)),
                            _ => tears.push(Tear::Mask(r.next())),
                        }
                    }
                    if is_header {
                        // god byte alone, and everything but the god byte
                        tears.push(Tear::Prefix(10));
                        tears.push(Tear::Suffix(10));
                        tears.push(Tear::Prefix(9));
                        tears.push(Tear::Prefix(64));
                        tears.push(Tear::Suffix(64));
                    }
                    for tear in tears {
                        for all_earlier in [true, false] {
                            let mut s: Vec<usize> = if all_earlier { earlier.to_vec() } else { vec![] };
                            s.push(i);
                            let ci = CrashImage {
                                pos,
                                sync_pos,
                                applied: s,
                                window: w,
                                tear: Some((i, tear.describe())),
                                policy: "torn",
                            };
                            if !seen.insert(ci.signature()) {
                                continue;
                            }
                            let mut img = durable.clone();
                            for &x in &ci.applied {
                                if x == i {
                                    tear.apply(&mut img, *off, data);
                                } else {
                                    apply_ev(&mut img, &self.log[x]);
                                }
                            }
                            self.images += 1;
                            self.torn_images += 1;
                            if !visit(&ci, img) {
                                return;
                            }
                        }
                    }
                }
            }
        }
    }
}
