//! M5 -- pause-point controller over hook H5 (`redb::verif::set_pause_hook`).
//!
//! The hook is process-global; every case has its own `Ctl` and the threads it spawns carry it in
//! a thread-local, so cases run in parallel without seeing each other's pause points. Threads
//! without a controller pass through.

use crate::rng::Rng;
use std::cell::RefCell;
use std::collections::BTreeMap;
use std::sync::{Arc, Condvar, Mutex, Once};
use std::time::{Duration, Instant};

#[derive(Clone, Debug)]
pub struct Trap {
    pub role: u32,
    pub point: &'static str,
    /// park at the n-th (0-based) visit of the point by that role
    pub nth: u32,
}

#[derive(Default)]
pub struct CtlState {
    pub trap: Option<Trap>,
    pub hits: BTreeMap<(u32, &'static str), u32>,
    pub parked: Option<(u32, &'static str)>,
    pub release: bool,
    /// every (role, point) reached, in order (bounded)
    pub reached: Vec<(u32, &'static str)>,
    pub jitter: bool,
}

pub struct Ctl {
    pub st: Mutex<CtlState>,
    pub cv: Condvar,
}

thread_local! {
    static ROLE: RefCell<Option<(u32, Arc<Ctl>, Rng)>> = const { RefCell::new(None) };
}

static INSTALL: Once = Once::new();

pub fn install_hook() {
    INSTALL.call_once(|| {
        redb::verif::set_pause_hook(Some(Arc::new(|name: &'static str| {
            let ctx = ROLE.with(|r| r.borrow().as_ref().map(|(role, ctl, _)| (*role, ctl.clone())));
            if let Some((role, ctl)) = ctx {
                ctl.at_point(role, name);
            }
        })));
    });
}

/// Give the current thread a role under `ctl` (call at the start of a spawned thread).
pub fn enter(role: u32, ctl: &Arc<Ctl>, seed: u64) {
    install_hook();
    ROLE.with(|r| *r.borrow_mut() = Some((role, ctl.clone(), Rng::new(seed ^ u64::from(role)))));
}

pub fn leave() {
    ROLE.with(|r| *r.borrow_mut() = None);
}

impl Ctl {
    pub fn new() -> Arc<Ctl> {
        Arc::new(Ctl {
            st: Mutex::new(CtlState::default()),
            cv: Condvar::new(),
        })
    }

    fn at_point(&self, role: u32, name: &'static str) {
        let mut st = self.st.lock().unwrap();
        if st.reached.len() < 4096 {
            st.reached.push((role, name));
        }
        let n = {
            let e = st.hits.entry((role, name)).or_insert(0);
            let n = *e;
            *e += 1;
            n
        };
        let hit = matches!(&st.trap, Some(t) if t.role == role && t.point == name && t.nth == n);
        if hit {
            st.trap = None;
            st.parked = Some((role, name));
            st.release = false;
            self.cv.notify_all();
            while !st.release {
                st = self.cv.wait(st).unwrap();
            }
            st.parked = None;
            self.cv.notify_all();
            return;
        }
        let jitter = st.jitter;
        drop(st);
        if jitter {
            let d = ROLE.with(|r| {
                r.borrow_mut()
                    .as_mut()
                    .map(|(_, _, rng)| rng.below(8))
                    .unwrap_or(0)
            });
            match d {
                0 => std::thread::sleep(Duration::from_micros(150)),
                1 | 2 => std::thread::yield_now(),
                3 => std::thread::sleep(Duration::from_micros(20)),
                _ => {}
            }
        }
    }

    pub fn set_trap(&self, t: Trap) {
        let mut st = self.st.lock().unwrap();
        st.trap = Some(t);
        st.parked = None;
        st.release = false;
    }

    pub fn set_jitter(&self, on: bool) {
        self.st.lock().unwrap().jitter = on;
    }

    /// Wait until a thread is parked at the trap, or `done()` says the victim finished, or timeout.
    pub fn wait_parked(&self, done: &dyn Fn() -> bool, timeout: Duration) -> WaitOutcome {
        // Miri's clock is virtual (it advances whenever every thread sleeps), so deadlines there
        // are only a backstop
        let timeout = if cfg!(miri) { timeout * 2000 } else { timeout };
        let start = Instant::now();
        let mut st = self.st.lock().unwrap();
        loop {
            if st.parked.is_some() {
                return WaitOutcome::Parked;
            }
            if done() {
                return WaitOutcome::VictimFinished;
            }
            if start.elapsed() > timeout {
                return WaitOutcome::Timeout;
            }
            let (g, _) = self.cv.wait_timeout(st, Duration::from_millis(2)).unwrap();
            st = g;
        }
    }

    pub fn release(&self) {
        let mut st = self.st.lock().unwrap();
        st.release = true;
        st.trap = None;
        self.cv.notify_all();
    }

    pub fn points_reached(&self) -> Vec<(u32, &'static str)> {
        self.st.lock().unwrap().reached.clone()
    }
}

#[derive(Debug, PartialEq, Eq, Clone, Copy)]
pub enum WaitOutcome {
    Parked,
    VictimFinished,
    Timeout,
}

/// utime+stime (clock ticks) of every thread of this process
pub fn thread_cpu_ticks() -> BTreeMap<u64, u64> {
    let mut out = BTreeMap::new();
    if let Ok(rd) = std::fs::read_dir("/proc/self/task") {
        for e in rd.flatten() {
            let tid: u64 = match e.file_name().to_string_lossy().parse() {
                Ok(t) => t,
                Err(_) => continue,
            };
            if let Ok(s) = std::fs::read_to_string(e.path().join("stat")) {
                // fields after the ")" of the command name
                if let Some(i) = s.rfind(')') {
                    let f: Vec<&str> = s[i + 2..].split_whitespace().collect();
                    if f.len() > 13 {
                        let u: u64 = f[11].parse().unwrap_or(0);
                        let k: u64 = f[12].parse().unwrap_or(0);
                        out.insert(tid, u + k);
                    }
                }
            }
        }
    }
    out
}

pub const ALL_POINTS: [&str; 32] = [
    "read.before_register",
    "read.registered",
    "write.slot_acquired",
    "commit.durable.before_horizon",
    "commit.durable.after_horizon",
    "commit.durable.after_purge",
    "commit.durable.before_publish",
    "commit.durable.after_publish",
    "commit.durable.before_epilogue",
    "mem.commit.after_first_flush",
    "mem.commit.after_final_flush",
    "mem.commit.after_publish",
    "epilogue.after_horizon",
    "epilogue.before_publish",
    "epilogue.after_publish",
    "commit.nondurable.after_horizon",
    "commit.nondurable.before_publish",
    "commit.nondurable.after_publish",
    "commit.nondurable.before_post_frees",
    "savepoint.drop",
    "tracker.dealloc_savepoint.mid",
    "wtx.drop",
    "txguard.write.before_end",
    "txguard.write.after_end",
    "db.drop.begin",
    "db.drop.after_defer",
    "abort.after_tracker_revert",
    "set_dirty.after_store",
    "set_dirty.before_disable",
    "ephemeral_savepoint.after_alloc",
    "ephemeral_savepoint.after_dirty_check",
    "(none)",
];
