//! Small deterministic PRNG (xoshiro256** seeded through splitmix64). Every generator in the
//! harness is a pure function of (VERIF_SEED, check, case index).

#[derive(Clone, Debug)]
pub struct Rng {
    s: [u64; 4],
}

pub fn splitmix(x: &mut u64) -> u64 {
    *x = x.wrapping_add(0x9E37_79B9_7F4A_7C15);
    let mut z = *x;
    z = (z ^ (z >> 30)).wrapping_mul(0xBF58_476D_1CE4_E5B9);
    z = (z ^ (z >> 27)).wrapping_mul(0x94D0_49BB_1331_11EB);
    z ^ (z >> 31)
}

pub fn mix(a: u64, b: u64) -> u64 {
    let mut x = a ^ b.rotate_left(32) ^ 0xD6E8_FEB8_6659_FD93;
    splitmix(&mut x)
}

/// FNV-1a style 64-bit hash for case signatures
pub fn hash_bytes(h: u64, data: &[u8]) -> u64 {
    let mut h = h ^ 0xcbf2_9ce4_8422_2325;
    for b in data {
        h ^= u64::from(*b);
        h = h.wrapping_mul(0x0000_0100_0000_01B3);
    }
    let mut x = h;
    splitmix(&mut x)
}

impl Rng {
    pub fn new(seed: u64) -> Self {
        let mut x = seed;
        let s = [
            splitmix(&mut x),
            splitmix(&mut x),
            splitmix(&mut x),
            splitmix(&mut x),
        ];
        Rng { s }
    }

    pub fn for_case(seed: u64, check: &str, case: u64) -> Self {
        let h = hash_bytes(seed, check.as_bytes());
        Rng::new(mix(h, case))
    }

    pub fn next(&mut self) -> u64 {
        let r = self.s[1].wrapping_mul(5).rotate_left(7).wrapping_mul(9);
        let t = self.s[1] << 17;
        self.s[2] ^= self.s[0];
        self.s[3] ^= self.s[1];
        self.s[1] ^= self.s[2];
        self.s[0] ^= self.s[3];
        self.s[2] ^= t;
        self.s[3] = self.s[3].rotate_left(45);
        r
    }

    /// uniform in 0..n (n > 0)
    pub fn below(&mut self, n: u64) -> u64 {
        debug_assert!(n > 0);
        ((u128::from(self.next()) * u128::from(n)) >> 64) as u64
    }

    pub fn usize(&mut self, n: usize) -> usize {
        self.below(n as u64) as usize
    }

    /// inclusive range
    pub fn range(&mut self, lo: u64, hi: u64) -> u64 {
        lo + self.below(hi - lo + 1)
    }

    pub fn chance(&mut self, num: u64, den: u64) -> bool {
        self.below(den) < num
    }

    pub fn bool(&mut self) -> bool {
        self.next() & 1 == 1
    }

    pub fn pick<'a, T>(&mut self, xs: &'a [T]) -> &'a T {
        &xs[self.usize(xs.len())]
    }

    pub fn bytes(&mut self, len: usize) -> Vec<u8> {
        let mut v = Vec::with_capacity(len);
        while v.len() < len {
            let x = self.next().to_le_bytes();
            let take = (len - v.len()).min(8);
            v.extend_from_slice(&x[..take]);
        }
        v
    }

    pub fn shuffle<T>(&mut self, xs: &mut [T]) {
        for i in (1..xs.len()).rev() {
            let j = self.usize(i + 1);
            xs.swap(i, j);
        }
    }
}
