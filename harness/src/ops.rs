//! Generic table / multimap operations checked against the model (outcome-directed oracle shared by
//! every history-based check).

use crate::model::*;
use redb::{
    MultimapTable, ReadableMultimapTable, ReadableTable, ReadableTableMetadata, Table,
};
use std::collections::{BTreeMap, BTreeSet};
use std::ops::Bound;

#[derive(Debug, Clone)]
pub enum Fail {
    /// the observed behaviour differs from the model: a violation
    Oracle(String),
    /// redb returned an error (expected only under fault injection)
    Storage(String),
}

impl Fail {
    pub fn text(&self) -> &str {
        match self {
            Fail::Oracle(s) | Fail::Storage(s) => s,
        }
    }
}

pub type R<T> = Result<T, Fail>;

pub fn se<E: std::fmt::Display>(ctx: &str) -> impl FnOnce(E) -> Fail + '_ {
    move |e| Fail::Storage(format!("{ctx}: {e}"))
}

pub fn oracle<T>(s: String) -> R<T> {
    Err(Fail::Oracle(s))
}

macro_rules! ensure {
    ($cond:expr, $($arg:tt)*) => {
        if !($cond) {
            return Err(Fail::Oracle(format!($($arg)*)));
        }
    };
}
pub(crate) use ensure;

// ---- normal tables ------------------------------------------------------------------------------

pub fn n_insert<KC: Col, VC: Col>(
    t: &mut Table<'_, KC::T, VC::T>,
    m: &mut BTreeMap<Vec<u8>, Vec<u8>>,
    k: &[u8],
    v: &[u8],
) -> R<()> {
    let old = KC::with(k, |kk| {
        VC::with(v, |vv| {
            t.insert(kk, vv)
                .map(|o| o.map(|g| VC::model(g.value())))
        })
    })
    .map_err(se("insert"))?;
    let exp = m.insert(k.to_vec(), v.to_vec());
    ensure!(
        old == exp,
        "insert({}) returned old value {:?}, model {:?}",
        hex(k),
        old.as_deref().map(hex),
        exp.as_deref().map(hex)
    );
    Ok(())
}

pub fn n_remove<KC: Col, VC: Col>(
    t: &mut Table<'_, KC::T, VC::T>,
    m: &mut BTreeMap<Vec<u8>, Vec<u8>>,
    k: &[u8],
) -> R<()> {
    let old = KC::with(k, |kk| t.remove(kk).map(|o| o.map(|g| VC::model(g.value()))))
        .map_err(se("remove"))?;
    let exp = m.remove(k);
    ensure!(
        old == exp,
        "remove({}) returned {:?}, model {:?}",
        hex(k),
        old.as_deref().map(hex),
        exp.as_deref().map(hex)
    );
    Ok(())
}

pub fn n_get<KC: Col, VC: Col, T: ReadableTable<KC::T, VC::T>>(
    t: &T,
    m: &BTreeMap<Vec<u8>, Vec<u8>>,
    k: &[u8],
) -> R<()> {
    let got = KC::with(k, |kk| t.get(kk).map(|o| o.map(|g| VC::model(g.value()))))
        .map_err(se("get"))?;
    let exp = m.get(k).cloned();
    ensure!(
        got == exp,
        "get({}) returned {:?}, model {:?}",
        hex(k),
        got.as_deref().map(hex),
        exp.as_deref().map(hex)
    );
    Ok(())
}

pub fn n_len<KC: Col, VC: Col, T: ReadableTable<KC::T, VC::T>>(
    t: &T,
    m: &BTreeMap<Vec<u8>, Vec<u8>>,
) -> R<()> {
    let l = t.len().map_err(se("len"))?;
    ensure!(l == m.len() as u64, "len() returned {l}, model {}", m.len());
    let e = t.is_empty().map_err(se("is_empty"))?;
    ensure!(e == m.is_empty(), "is_empty() returned {e}, model {}", m.is_empty());
    Ok(())
}

pub fn n_first_last<KC: Col, VC: Col, T: ReadableTable<KC::T, VC::T>>(
    t: &T,
    m: &BTreeMap<Vec<u8>, Vec<u8>>,
) -> R<()> {
    let f = t
        .first()
        .map_err(se("first"))?
        .map(|(k, v)| (KC::model(k.value()), VC::model(v.value())));
    let ef = m.iter().next().map(|(k, v)| (k.clone(), v.clone()));
    ensure!(f == ef, "first() returned {:?}, model {:?}", f.as_ref().map(|x| hex(&x.0)), ef.as_ref().map(|x| hex(&x.0)));
    let l = t
        .last()
        .map_err(se("last"))?
        .map(|(k, v)| (KC::model(k.value()), VC::model(v.value())));
    let el = m.iter().next_back().map(|(k, v)| (k.clone(), v.clone()));
    ensure!(l == el, "last() returned {:?}, model {:?}", l.as_ref().map(|x| hex(&x.0)), el.as_ref().map(|x| hex(&x.0)));
    Ok(())
}

fn bound_ref(b: &Bound<Vec<u8>>) -> Bound<&[u8]> {
    match b {
        Bound::Included(x) => Bound::Included(x.as_slice()),
        Bound::Excluded(x) => Bound::Excluded(x.as_slice()),
        Bound::Unbounded => Bound::Unbounded,
    }
}

pub fn model_range<'m, V>(
    m: &'m BTreeMap<Vec<u8>, V>,
    lo: &Bound<Vec<u8>>,
    hi: &Bound<Vec<u8>>,
) -> Vec<(&'m Vec<u8>, &'m V)> {
    // BTreeMap::range panics on inverted ranges; redb returns an empty iterator
    let empty = match (lo, hi) {
        (Bound::Included(a), Bound::Included(b)) => a > b,
        (Bound::Included(a), Bound::Excluded(b))
        | (Bound::Excluded(a), Bound::Included(b))
        | (Bound::Excluded(a), Bound::Excluded(b)) => a >= b,
        _ => false,
    };
    if empty {
        return vec![];
    }
    m.range::<[u8], _>((bound_ref(lo), bound_ref(hi))).collect()
}

#[allow(clippy::type_complexity)]
pub fn real_bounds<'a, KC: Col>(
    lo: &'a Bound<Vec<u8>>,
    hi: &'a Bound<Vec<u8>>,
) -> (
    Bound<<KC::T as redb::Value>::SelfType<'a>>,
    Bound<<KC::T as redb::Value>::SelfType<'a>>,
) {
    let cv = |b: &'a Bound<Vec<u8>>| match b {
        Bound::Included(x) => Bound::Included(KC::real(x)),
        Bound::Excluded(x) => Bound::Excluded(KC::real(x)),
        Bound::Unbounded => Bound::Unbounded,
    };
    (cv(lo), cv(hi))
}

fn with_bounds<'a, KC: Col, R2>(
    lo: &'a Bound<Vec<u8>>,
    hi: &'a Bound<Vec<u8>>,
    f: impl FnOnce(
        (
            Bound<<KC::T as redb::Value>::SelfType<'a>>,
            Bound<<KC::T as redb::Value>::SelfType<'a>>,
        ),
    ) -> R2,
) -> R2 {
    f(real_bounds::<KC>(lo, hi))
}

/// Range scan in the given bounds; `pattern` decides for each step whether to take from the front
/// (true) or the back (false); consumes at most `limit` entries.
pub fn n_range<KC: Col, VC: Col, T: ReadableTable<KC::T, VC::T>>(
    t: &T,
    m: &BTreeMap<Vec<u8>, Vec<u8>>,
    lo: &Bound<Vec<u8>>,
    hi: &Bound<Vec<u8>>,
    pattern: u64,
    limit: usize,
) -> R<()> {
    let exp = model_range(m, lo, hi);
    let res: R<()> = with_bounds::<KC, _>(lo, hi, |b| {
        let mut it = t.range(b).map_err(se("range"))?;
        let mut front = 0usize;
        let mut back = exp.len();
        let mut step = 0u32;
        loop {
            if step as usize >= limit {
                break;
            }
            let from_front = (pattern >> (step % 64)) & 1 == 1;
            step += 1;
            let got = if from_front { it.next() } else { it.next_back() };
            let want = if front < back {
                if from_front {
                    front += 1;
                    Some(exp[front - 1])
                } else {
                    back -= 1;
                    Some(exp[back])
                }
            } else {
                None
            };
            match (got, want) {
                (None, None) => break,
                (Some(g), Some((wk, wv))) => {
                    let (gk, gv) = g.map_err(se("range next"))?;
                    let gk = KC::model(gk.value());
                    let gv = VC::model(gv.value());
                    ensure!(
                        &gk == wk && &gv == wv,
                        "range step {step} ({}) yielded key {} value {}, model key {} value {}",
                        if from_front { "front" } else { "back" },
                        hex(&gk),
                        hex(&gv),
                        hex(wk),
                        hex(wv)
                    );
                }
                (Some(g), None) => {
                    let (gk, _) = g.map_err(se("range next"))?;
                    return oracle(format!(
                        "range yielded extra key {} after the model was exhausted",
                        hex(&KC::model(gk.value()))
                    ));
                }
                (None, Some((wk, _))) => {
                    return oracle(format!(
                        "range ended early; model still has key {}",
                        hex(wk)
                    ));
                }
            }
        }
        Ok(())
    });
    res
}

pub fn n_pop<KC: Col, VC: Col>(
    t: &mut Table<'_, KC::T, VC::T>,
    m: &mut BTreeMap<Vec<u8>, Vec<u8>>,
    first: bool,
) -> R<()> {
    let got = if first { t.pop_first() } else { t.pop_last() }
        .map_err(se("pop"))?
        .map(|(k, v)| (KC::model(k.value()), VC::model(v.value())));
    let exp = if first {
        m.pop_first()
    } else {
        m.pop_last()
    };
    ensure!(
        got == exp,
        "pop_{} returned {:?}, model {:?}",
        if first { "first" } else { "last" },
        got.as_ref().map(|x| hex(&x.0)),
        exp.as_ref().map(|x| hex(&x.0))
    );
    Ok(())
}

pub fn keep_pred(k: &[u8], salt: u64, modulus: u64) -> bool {
    crate::rng::hash_bytes(salt, k) % modulus != 0
}

pub fn n_retain<KC: Col, VC: Col>(
    t: &mut Table<'_, KC::T, VC::T>,
    m: &mut BTreeMap<Vec<u8>, Vec<u8>>,
    range: Option<(Bound<Vec<u8>>, Bound<Vec<u8>>)>,
    salt: u64,
    modulus: u64,
) -> R<()> {
    match &range {
        None => {
            t.retain(|k, _| keep_pred(&KC::model(k), salt, modulus))
                .map_err(se("retain"))?;
            m.retain(|k, _| keep_pred(k, salt, modulus));
        }
        Some((lo, hi)) => {
            with_bounds::<KC, _>(lo, hi, |b| {
                t.retain_in(b, |k, _| {
                    keep_pred(&KC::model(k), salt, modulus)
                })
            })
            .map_err(se("retain_in"))?;
            let doomed: Vec<Vec<u8>> = model_range(m, lo, hi)
                .into_iter()
                .filter(|(k, _)| !keep_pred(k, salt, modulus))
                .map(|(k, _)| k.clone())
                .collect();
            for k in doomed {
                m.remove(&k);
            }
        }
    }
    Ok(())
}

/// extract_if / extract_from_if with partial consumption from both ends
#[allow(clippy::too_many_arguments)]
pub fn n_extract<KC: Col, VC: Col>(
    t: &mut Table<'_, KC::T, VC::T>,
    m: &mut BTreeMap<Vec<u8>, Vec<u8>>,
    range: Option<(Bound<Vec<u8>>, Bound<Vec<u8>>)>,
    salt: u64,
    modulus: u64,
    take: usize,
    pattern: u64,
    close: bool,
) -> R<()> {
    let (lo, hi) = range
        .clone()
        .unwrap_or((Bound::Unbounded, Bound::Unbounded));
    let matching: Vec<(Vec<u8>, Vec<u8>)> = model_range(m, &lo, &hi)
        .into_iter()
        .filter(|(k, _)| !keep_pred(k, salt, modulus))
        .map(|(k, v)| (k.clone(), v.clone()))
        .collect();
    let mut removed: Vec<Vec<u8>> = vec![];
    {
        let pred = |k: <KC::T as redb::Value>::SelfType<'_>,
                    _: <VC::T as redb::Value>::SelfType<'_>| {
            !keep_pred(&KC::model(k), salt, modulus)
        };
        let run = |it: &mut dyn DoubleEndedIterator<
            Item = Result<
                (redb::AccessGuard<'_, KC::T>, redb::AccessGuard<'_, VC::T>),
                redb::StorageError,
            >,
        >,
                   removed: &mut Vec<Vec<u8>>|
         -> R<()> {
            let mut front = 0usize;
            let mut back = matching.len();
            for step in 0..take {
                let from_front = (pattern >> (step % 64)) & 1 == 1;
                let got = if from_front { it.next() } else { it.next_back() };
                let want = if front < back {
                    if from_front {
                        front += 1;
                        Some(&matching[front - 1])
                    } else {
                        back -= 1;
                        Some(&matching[back])
                    }
                } else {
                    None
                };
                match (got, want) {
                    (None, None) => break,
                    (Some(g), Some((wk, wv))) => {
                        let (gk, gv) = g.map_err(se("extract next"))?;
                        let gk = KC::model(gk.value());
                        let gv = VC::model(gv.value());
                        ensure!(
                            &gk == wk && &gv == wv,
                            "extract_if step {step} yielded key {}, model {}",
                            hex(&gk),
                            hex(wk)
                        );
                        removed.push(gk);
                    }
                    (Some(g), None) => {
                        let (gk, _) = g.map_err(se("extract next"))?;
                        return oracle(format!(
                            "extract_if yielded extra key {}",
                            hex(&KC::model(gk.value()))
                        ));
                    }
                    (None, Some((wk, _))) => {
                        return oracle(format!(
                            "extract_if ended early; model still has matching key {}",
                            hex(wk)
                        ));
                    }
                }
            }
            Ok(())
        };
        match &range {
            None => {
                let mut it = t.extract_if(pred).map_err(se("extract_if"))?;
                run(&mut it, &mut removed)?;
                if close {
                    it.close().map_err(se("extract_if close"))?;
                }
            }
            Some((lo, hi)) => {
                let r: R<()> = with_bounds::<KC, _>(lo, hi, |b| {
                    let mut it = t
                        .extract_from_if(b, pred)
                        .map_err(se("extract_from_if"))?;
                    run(&mut it, &mut removed)?;
                    if close {
                        it.close().map_err(se("extract_from_if close"))?;
                    }
                    Ok(())
                });
                r?;
            }
        }
    }
    for k in removed {
        m.remove(&k);
    }
    Ok(())
}

pub fn n_scan_all<KC: Col, VC: Col, T: ReadableTable<KC::T, VC::T>>(
    t: &T,
) -> R<BTreeMap<Vec<u8>, Vec<u8>>> {
    let mut out = BTreeMap::new();
    let mut prev: Option<Vec<u8>> = None;
    for e in t.iter().map_err(se("iter"))? {
        let (k, v) = e.map_err(se("iter next"))?;
        let mk = KC::model(k.value());
        if let Some(p) = &prev {
            ensure!(p < &mk, "iteration not strictly increasing: {} then {}", hex(p), hex(&mk));
        }
        prev = Some(mk.clone());
        out.insert(mk, VC::model(v.value()));
    }
    let l = t.len().map_err(se("len"))?;
    ensure!(l == out.len() as u64, "len() = {l} but iteration yielded {}", out.len());
    Ok(out)
}

// ---- multimap tables ------------------------------------------------------------------------------

pub fn m_insert<KC: Col, VC: Col>(
    t: &mut MultimapTable<'_, KC::T, VC::T>,
    m: &mut BTreeMap<Vec<u8>, BTreeSet<Vec<u8>>>,
    k: &[u8],
    v: &[u8],
) -> R<()> {
    let existed =
        KC::with(k, |kk| VC::with(v, |vv| t.insert(kk, vv))).map_err(se("mm insert"))?;
    let exp = !m.entry(k.to_vec()).or_default().insert(v.to_vec());
    ensure!(
        existed == exp,
        "multimap insert({}, {}) returned existed={existed}, model {exp}",
        hex(k),
        hex(v)
    );
    Ok(())
}

pub fn m_remove<KC: Col, VC: Col>(
    t: &mut MultimapTable<'_, KC::T, VC::T>,
    m: &mut BTreeMap<Vec<u8>, BTreeSet<Vec<u8>>>,
    k: &[u8],
    v: &[u8],
) -> R<()> {
    let existed =
        KC::with(k, |kk| VC::with(v, |vv| t.remove(kk, vv))).map_err(se("mm remove"))?;
    let mut exp = false;
    if let Some(s) = m.get_mut(k) {
        exp = s.remove(v);
        if s.is_empty() {
            m.remove(k);
        }
    }
    ensure!(
        existed == exp,
        "multimap remove({}, {}) returned {existed}, model {exp}",
        hex(k),
        hex(v)
    );
    Ok(())
}

fn collect_values<VC: Col>(
    mut it: redb::MultimapValue<'_, VC::T>,
    backwards: bool,
    what: &str,
) -> R<(u64, Vec<Vec<u8>>)> {
    let l = it.len();
    let mut out = vec![];
    loop {
        let n = if backwards { it.next_back() } else { it.next() };
        match n {
            None => break,
            Some(g) => out.push(VC::model(g.map_err(se(what))?.value())),
        }
    }
    if backwards {
        out.reverse();
    }
    Ok((l, out))
}

pub fn m_remove_all<KC: Col, VC: Col>(
    t: &mut MultimapTable<'_, KC::T, VC::T>,
    m: &mut BTreeMap<Vec<u8>, BTreeSet<Vec<u8>>>,
    k: &[u8],
) -> R<()> {
    let it = KC::with(k, |kk| t.remove_all(kk)).map_err(se("mm remove_all"))?;
    let (l, got) = collect_values::<VC>(it, false, "remove_all values")?;
    let exp: Vec<Vec<u8>> = m.remove(k).map(|s| s.into_iter().collect()).unwrap_or_default();
    ensure!(
        got == exp && l == exp.len() as u64,
        "multimap remove_all({}) returned {} values (len()={l}), model {}",
        hex(k),
        got.len(),
        exp.len()
    );
    Ok(())
}

pub fn m_get<KC: Col, VC: Col, T: ReadableMultimapTable<KC::T, VC::T>>(
    t: &T,
    m: &BTreeMap<Vec<u8>, BTreeSet<Vec<u8>>>,
    k: &[u8],
    backwards: bool,
) -> R<()> {
    let it = KC::with(k, |kk| t.get(kk)).map_err(se("mm get"))?;
    let (l, got) = collect_values::<VC>(it, backwards, "get values")?;
    let exp: Vec<Vec<u8>> = m
        .get(k)
        .map(|s| s.iter().cloned().collect())
        .unwrap_or_default();
    ensure!(
        got == exp && l == exp.len() as u64,
        "multimap get({}) returned {} values (len()={l}), model {}; first got {:?} first model {:?}",
        hex(k),
        got.len(),
        exp.len(),
        got.first().map(|x| hex(x)),
        exp.first().map(|x| hex(x))
    );
    Ok(())
}

pub fn m_len<KC: Col, VC: Col, T: ReadableMultimapTable<KC::T, VC::T>>(
    t: &T,
    m: &BTreeMap<Vec<u8>, BTreeSet<Vec<u8>>>,
) -> R<()> {
    let l = t.len().map_err(se("mm len"))?;
    let exp: u64 = m.values().map(|s| s.len() as u64).sum();
    ensure!(l == exp, "multimap len() returned {l}, model {exp}");
    let e = t.is_empty().map_err(se("mm is_empty"))?;
    ensure!(e == m.is_empty(), "multimap is_empty() = {e}, model {}", m.is_empty());
    Ok(())
}

pub fn m_range<KC: Col, VC: Col, T: ReadableMultimapTable<KC::T, VC::T>>(
    t: &T,
    m: &BTreeMap<Vec<u8>, BTreeSet<Vec<u8>>>,
    lo: &Bound<Vec<u8>>,
    hi: &Bound<Vec<u8>>,
    backwards: bool,
) -> R<()> {
    let mut exp = model_range(m, lo, hi);
    if backwards {
        exp.reverse();
    }
    let res: R<()> = with_bounds::<KC, _>(lo, hi, |b| {
        let mut it = t
            .range(b)
            .map_err(se("mm range"))?;
        let mut i = 0;
        loop {
            let n = if backwards { it.next_back() } else { it.next() };
            match (n, exp.get(i)) {
                (None, None) => break,
                (Some(g), Some((wk, wvs))) => {
                    let (gk, vals) = g.map_err(se("mm range next"))?;
                    let gk = KC::model(gk.value());
                    ensure!(&gk == *wk, "multimap range yielded key {}, model {}", hex(&gk), hex(wk));
                    let (l, got) = collect_values::<VC>(vals, false, "mm range values")?;
                    let want: Vec<Vec<u8>> = wvs.iter().cloned().collect();
                    ensure!(
                        got == want && l == want.len() as u64,
                        "multimap range key {} yielded {} values, model {}",
                        hex(&gk),
                        got.len(),
                        want.len()
                    );
                }
                (Some(g), None) => {
                    let (gk, _) = g.map_err(se("mm range next"))?;
                    return oracle(format!(
                        "multimap range yielded extra key {}",
                        hex(&KC::model(gk.value()))
                    ));
                }
                (None, Some((wk, _))) => {
                    return oracle(format!("multimap range ended early; model has {}", hex(wk)));
                }
            }
            i += 1;
        }
        Ok(())
    });
    res
}

pub fn m_scan_all<KC: Col, VC: Col, T: ReadableMultimapTable<KC::T, VC::T>>(
    t: &T,
) -> R<BTreeMap<Vec<u8>, BTreeSet<Vec<u8>>>> {
    let mut out: BTreeMap<Vec<u8>, BTreeSet<Vec<u8>>> = BTreeMap::new();
    let mut prev: Option<Vec<u8>> = None;
    let mut pairs = 0u64;
    for e in t.iter().map_err(se("mm iter"))? {
        let (k, vals) = e.map_err(se("mm iter next"))?;
        let mk = KC::model(k.value());
        if let Some(p) = &prev {
            ensure!(p < &mk, "multimap iteration keys not strictly increasing");
        }
        prev = Some(mk.clone());
        let (l, vs) = collect_values::<VC>(vals, false, "mm iter values")?;
        ensure!(l == vs.len() as u64, "MultimapValue::len() = {l} but {} values", vs.len());
        ensure!(!vs.is_empty(), "multimap key {} present with no values", hex(&mk));
        for w in vs.windows(2) {
            ensure!(w[0] < w[1], "multimap values of key {} not strictly increasing", hex(&mk));
        }
        pairs += vs.len() as u64;
        out.insert(mk, vs.into_iter().collect());
    }
    let l = t.len().map_err(se("mm len"))?;
    ensure!(l == pairs, "multimap len() = {l} but iteration yielded {pairs} pairs");
    Ok(out)
}
