//! Evidence collection, verdict discipline, parallel case runner with panic classification.

use serde_json::{Value, json};
use std::cell::RefCell;
use std::collections::{BTreeMap, HashSet};
use std::panic::{AssertUnwindSafe, catch_unwind};
use std::sync::atomic::{AtomicBool, AtomicU64, Ordering};
use std::sync::{Mutex, Once};
use std::time::Instant;

/// sanitizer / interpreter legs: a handful of very small cases (value = how many)
pub static TINY: std::sync::atomic::AtomicU64 = std::sync::atomic::AtomicU64::new(0);
pub fn tiny() -> u64 {
    TINY.load(std::sync::atomic::Ordering::Relaxed)
}

#[derive(Clone, Copy, Debug, PartialEq, Eq)]
pub enum Tier {
    Quick,
    Thorough,
}

impl Tier {
    pub fn name(self) -> &'static str {
        match self {
            Tier::Quick => "quick",
            Tier::Thorough => "thorough",
        }
    }
    pub fn pick<T>(self, q: T, t: T) -> T {
        match self {
            Tier::Quick => q,
            Tier::Thorough => t,
        }
    }
}

#[derive(Clone, Debug)]
pub struct Violation {
    /// stable signature used to match known findings
    pub signature: String,
    pub detail: String,
    /// everything needed to re-execute the case
    pub replay: Value,
}

pub struct Report {
    pub property: String,
    pub level: String,
    pub tier: Tier,
    pub seed: u64,
    pub jobs: usize,
    pub started: Instant,
    pub time_cap_s: f64,
    pub evaluations: AtomicU64,
    distinct: Mutex<HashSet<u64>>,
    counters: Mutex<BTreeMap<String, u64>>,
    samples: Mutex<Vec<Value>>,
    pub violations: Mutex<Vec<Violation>>,
    pub inconclusive: Mutex<Vec<String>>,
    pub machinery: Mutex<Vec<String>>,
    pub rule: Mutex<String>,
    pub assumptions: Mutex<Vec<String>>,
    pub extra: Mutex<BTreeMap<String, Value>>,
    pub stop: AtomicBool,
    pub replay_only: Option<Value>,
    /// known findings of this property: each a list of substrings that must all occur in
    /// signature+detail; such violations are still listed (the driver prints KNOWN-FINDING) but
    /// do not stop the run early
    pub known: Vec<Vec<String>>,
    pub known_hits: AtomicU64,
}

impl Report {
    pub fn new(property: &str, level: &str, tier: Tier, seed: u64, jobs: usize) -> Self {
        Report {
            property: property.to_string(),
            level: level.to_string(),
            tier,
            seed,
            jobs,
            started: Instant::now(),
            time_cap_s: f64::INFINITY,
            evaluations: AtomicU64::new(0),
            distinct: Mutex::new(HashSet::new()),
            counters: Mutex::new(BTreeMap::new()),
            samples: Mutex::new(Vec::new()),
            violations: Mutex::new(Vec::new()),
            inconclusive: Mutex::new(Vec::new()),
            machinery: Mutex::new(Vec::new()),
            rule: Mutex::new(String::new()),
            assumptions: Mutex::new(Vec::new()),
            extra: Mutex::new(BTreeMap::new()),
            stop: AtomicBool::new(false),
            replay_only: None,
            known: vec![],
            known_hits: AtomicU64::new(0),
        }
    }

    pub fn eval(&self, n: u64) {
        self.evaluations.fetch_add(n, Ordering::Relaxed);
    }

    /// record a non-trivial case signature
    pub fn distinct(&self, sig: u64) {
        self.distinct.lock().unwrap().insert(sig);
    }

    pub fn distinct_many(&self, sigs: impl IntoIterator<Item = u64>) {
        let mut d = self.distinct.lock().unwrap();
        for s in sigs {
            d.insert(s);
        }
    }

    pub fn distinct_count(&self) -> usize {
        self.distinct.lock().unwrap().len()
    }

    pub fn count(&self, key: &str, n: u64) {
        if n == 0 {
            return;
        }
        *self
            .counters
            .lock()
            .unwrap()
            .entry(key.to_string())
            .or_insert(0) += n;
    }

    pub fn count_max(&self, key: &str, n: u64) {
        let mut c = self.counters.lock().unwrap();
        let e = c.entry(key.to_string()).or_insert(0);
        if n > *e {
            *e = n;
        }
    }

    pub fn merge_counts(&self, m: &BTreeMap<String, u64>) {
        let mut c = self.counters.lock().unwrap();
        for (k, v) in m {
            *c.entry(k.clone()).or_insert(0) += *v;
        }
    }

    pub fn counter(&self, key: &str) -> u64 {
        self.counters.lock().unwrap().get(key).copied().unwrap_or(0)
    }

    pub fn sample(&self, v: Value) {
        let mut s = self.samples.lock().unwrap();
        if s.len() < 4 {
            s.push(v);
        }
    }

    pub fn want_sample(&self) -> bool {
        self.samples.lock().unwrap().len() < 4
    }

    pub fn violation(&self, signature: impl Into<String>, detail: impl Into<String>, replay: Value) {
        let signature = signature.into();
        let detail = detail.into();
        let text = format!("{signature} {detail}");
        let is_known = self
            .known
            .iter()
            .any(|k| !k.is_empty() && k.iter().all(|s| text.contains(s.as_str())));
        let mut v = self.violations.lock().unwrap();
        if is_known {
            // keep a few examples only
            if self.known_hits.fetch_add(1, Ordering::Relaxed) >= 3 {
                return;
            }
        }
        if v.len() < 200 {
            v.push(Violation {
                signature,
                detail,
                replay,
            });
        }
    }

    /// violations that are not known findings
    pub fn violation_count(&self) -> usize {
        let v = self.violations.lock().unwrap();
        v.iter()
            .filter(|x| {
                let text = format!("{} {}", x.signature, x.detail);
                !self
                    .known
                    .iter()
                    .any(|k| !k.is_empty() && k.iter().all(|s| text.contains(s.as_str())))
            })
            .count()
    }

    pub fn inconclusive(&self, s: impl Into<String>) {
        let mut v = self.inconclusive.lock().unwrap();
        if v.len() < 100 {
            v.push(s.into());
        }
    }

    pub fn machinery(&self, s: impl Into<String>) {
        self.machinery.lock().unwrap().push(s.into());
    }

    pub fn set_rule(&self, s: &str) {
        *self.rule.lock().unwrap() = s.to_string();
    }

    pub fn assume(&self, s: &str) {
        self.assumptions.lock().unwrap().push(s.to_string());
    }

    pub fn extra(&self, k: &str, v: Value) {
        self.extra.lock().unwrap().insert(k.to_string(), v);
    }

    pub fn elapsed(&self) -> f64 {
        self.started.elapsed().as_secs_f64()
    }

    pub fn out_of_time(&self) -> bool {
        self.elapsed() > self.time_cap_s
    }

    pub fn to_json(&self) -> Value {
        let counters: BTreeMap<String, u64> = self.counters.lock().unwrap().clone();
        let mut coverage = serde_json::Map::new();
        coverage.insert(
            "evaluations".into(),
            json!(self.evaluations.load(Ordering::Relaxed)),
        );
        coverage.insert("distinct_nontrivial".into(), json!(self.distinct_count()));
        coverage.insert("rule".into(), json!(self.rule.lock().unwrap().clone()));
        coverage.insert(
            "samples".into(),
            Value::Array(self.samples.lock().unwrap().clone()),
        );
        coverage.insert("observed".into(), json!(counters));
        coverage.insert(
            "inconclusive".into(),
            json!(self.inconclusive.lock().unwrap().clone()),
        );
        for (k, v) in self.extra.lock().unwrap().iter() {
            coverage.insert(k.clone(), v.clone());
        }
        let viols: Vec<Value> = self
            .violations
            .lock()
            .unwrap()
            .iter()
            .map(|v| json!({"signature": v.signature, "detail": v.detail, "replay": v.replay}))
            .collect();
        json!({
            "property_id": self.property,
            "tier": self.tier.name(),
            "seed": self.seed,
            "level": self.level,
            "coverage": Value::Object(coverage),
            "assumptions": self.assumptions.lock().unwrap().clone(),
            "wall_s": (self.elapsed() * 1000.0).round() / 1000.0,
            "violations": viols.len(),
            "known_finding_hits": self.known_hits.load(Ordering::Relaxed),
            "violation_list": viols,
            "machinery_errors": self.machinery.lock().unwrap().clone(),
        })
    }
}

// ---------------------------------------------------------------------------------------------
// panic capture

thread_local! {
    static LAST_PANIC: RefCell<Option<(String, String)>> = const { RefCell::new(None) };
    static QUIET: RefCell<bool> = const { RefCell::new(false) };
}

static HOOK: Once = Once::new();

pub fn install_panic_hook() {
    HOOK.call_once(|| {
        let default = std::panic::take_hook();
        std::panic::set_hook(Box::new(move |info| {
            let loc = info
                .location()
                .map(|l| format!("{}:{}", l.file(), l.line()))
                .unwrap_or_default();
            let msg = if let Some(s) = info.payload().downcast_ref::<&str>() {
                (*s).to_string()
            } else if let Some(s) = info.payload().downcast_ref::<String>() {
                s.clone()
            } else {
                "<non-string panic>".to_string()
            };
            if std::thread::panicking() && LAST_PANIC.with(|p| p.borrow().is_some()) {
                // a second panic while unwinding from the first: the process is about to abort, so
                // nothing will report these unless it is printed now
                let first = LAST_PANIC.with(|p| p.borrow().clone()).unwrap_or_default();
                eprintln!("rv: DOUBLE PANIC (process aborts): first panic at {}: {} -- second panic at {loc}: {msg}", first.0, first.1);
            }
            LAST_PANIC.with(|p| *p.borrow_mut() = Some((loc, msg)));
            let quiet = QUIET.with(|q| *q.borrow());
            if !quiet || std::env::var_os("RV_LOUD").is_some() {
                default(info);
            }
        }));
    });
}

pub fn set_quiet(q: bool) {
    QUIET.with(|x| *x.borrow_mut() = q);
}

pub struct Panicked {
    pub location: String,
    pub message: String,
}

impl Panicked {
    /// true if the panic originated in redb source (or std, reached from redb), false if it is the
    /// harness' own assertion
    pub fn in_redb(&self) -> bool {
        // the harness crate's own files have relative paths ("src/..."); redb's are "/repo/src/..."
        !(self.location.contains("/verif/") || self.location.starts_with("src/"))
    }
    pub fn short(&self) -> String {
        let mut m = self.message.clone();
        if m.len() > 300 {
            m.truncate(300);
        }
        format!("panic at {}: {}", self.location, m)
    }
}

/// Run `f`, converting a panic into a value. Panic output is suppressed.
pub fn guarded<T>(f: impl FnOnce() -> T) -> Result<T, Panicked> {
    install_panic_hook();
    let prev = QUIET.with(|q| std::mem::replace(&mut *q.borrow_mut(), true));
    LAST_PANIC.with(|p| *p.borrow_mut() = None);
    let r = catch_unwind(AssertUnwindSafe(f));
    QUIET.with(|q| *q.borrow_mut() = prev);
    match r {
        Ok(v) => Ok(v),
        Err(_) => {
            let (location, message) = LAST_PANIC
                .with(|p| p.borrow_mut().take())
                .unwrap_or_default();
            Err(Panicked { location, message })
        }
    }
}

/// Run cases `0..n` on `rep.jobs` threads. Each case runs under `guarded`; a panic from the harness
/// itself is a machinery error, a panic from redb is handed to `on_panic` to be classified by the
/// check (most checks treat it as a violation of the property they monitor).
pub fn run_cases<F, P>(rep: &Report, n: u64, f: F, on_panic: P)
where
    F: Fn(u64) + Sync,
    P: Fn(u64, &Panicked) + Sync,
{
    if let Some(r) = &rep.replay_only {
        let case = r["case"].as_u64().unwrap_or(0);
        match guarded(|| f(case)) {
            Ok(()) => {}
            Err(p) => {
                if p.in_redb() {
                    on_panic(case, &p)
                } else {
                    rep.machinery(format!("case {case}: harness {}", p.short()))
                }
            }
        }
        return;
    }
    let next = AtomicU64::new(0);
    let jobs = rep.jobs.max(1);
    // when the driver asks for it, every worker keeps the index of the case it is running in a
    // small file, so that a process abort (double panic, allocation failure) can be attributed
    let inflight_dir = std::env::var("RV_INFLIGHT_DIR").ok();
    std::thread::scope(|s| {
        for w in 0..jobs {
            let inflight_dir = inflight_dir.clone();
            let (next, f, on_panic) = (&next, &f, &on_panic);
            s.spawn(move || {
                use std::os::unix::fs::FileExt;
                let slot = inflight_dir.as_ref().and_then(|d| std::fs::File::create(format!("{d}/w{w}")).ok());
                let mark = |v: i64| {
                    if let Some(fh) = &slot {
                        let _ = fh.write_at(format!("{v:>20}\n").as_bytes(), 0);
                    }
                };
                loop {
                    if rep.stop.load(Ordering::Relaxed) {
                        break;
                    }
                    let i = next.fetch_add(1, Ordering::Relaxed);
                    if i >= n {
                        break;
                    }
                    if rep.out_of_time() {
                        rep.count("cases_skipped_time_cap", 1);
                        continue;
                    }
                    mark(i as i64);
                    match guarded(|| f(i)) {
                        Ok(()) => {}
                        Err(p) => {
                            if p.in_redb() {
                                on_panic(i, &p);
                            } else {
                                rep.machinery(format!("case {i}: harness {}", p.short()));
                            }
                        }
                    }
                    mark(-1);
                    if rep.violation_count() >= 20 {
                        rep.stop.store(true, Ordering::Relaxed);
                    }
                }
            });
        }
    });
}
