use rv::report::{Report, Tier};
use serde_json::Value;
use std::io::Write;

fn arg(args: &[String], name: &str) -> Option<String> {
    args.iter()
        .position(|a| a == name)
        .and_then(|i| args.get(i + 1).cloned())
}

fn main() {
    let args: Vec<String> = std::env::args().collect();
    if args.len() < 2 {
        eprintln!("usage: rv <CHECK> --tier quick|thorough --seed N --jobs N --out FILE [--replay FILE] [--time-cap SECONDS]");
        std::process::exit(2);
    }
    let check = args[1].to_uppercase();
    let tier = match arg(&args, "--tier").as_deref() {
        Some("thorough") => Tier::Thorough,
        _ => Tier::Quick,
    };
    let seed: u64 = arg(&args, "--seed").and_then(|s| s.parse().ok()).unwrap_or(1);
    let jobs: usize = arg(&args, "--jobs").and_then(|s| s.parse().ok()).unwrap_or(16);
    let out = arg(&args, "--out");
    let (prop, level) = match rv::checks::lookup(&check) {
        Some(x) => x,
        None => {
            eprintln!("unknown check {check}");
            std::process::exit(2);
        }
    };
    let mut rep = Report::new(prop, level, tier, seed, jobs);
    if let Some(tc) = arg(&args, "--time-cap").and_then(|s| s.parse::<f64>().ok()) {
        rep.time_cap_s = tc;
    }
    if let Some(path) = arg(&args, "--known") {
        if let Ok(txt) = std::fs::read_to_string(&path) {
            if let Ok(v) = serde_json::from_str::<Value>(&txt) {
                for f in v["findings"].as_array().cloned().unwrap_or_default() {
                    if f["property"].as_str() == Some(prop) && f["status"].as_str() == Some("known") {
                        let subs: Vec<String> = f["match_all"]
                            .as_array()
                            .cloned()
                            .unwrap_or_default()
                            .iter()
                            .filter_map(|s| s.as_str().map(str::to_string))
                            .collect();
                        rep.known.push(subs);
                    }
                }
            }
        }
    }
    if let Some(path) = arg(&args, "--replay") {
        let txt = std::fs::read_to_string(&path).expect("read replay file");
        let v: Value = serde_json::from_str(&txt).expect("parse replay file");
        let r = if v.get("replay").is_some() { v["replay"].clone() } else { v };
        rep.seed = r["seed"].as_u64().unwrap_or(seed);
        if r["tier"].as_str() == Some("thorough") {
            rep.tier = Tier::Thorough;
        }
        rep.replay_only = Some(r);
    }
    if let Some(t) = arg(&args, "--tiny").and_then(|s| s.parse::<u64>().ok()) {
        rv::report::TINY.store(t, std::sync::atomic::Ordering::Relaxed);
    }
    rv::report::install_panic_hook();
    rv::checks::run(&check, &rep);
    let j = rep.to_json();
    let text = serde_json::to_string_pretty(&j).unwrap();
    match out {
        Some(p) => {
            let mut f = std::fs::File::create(&p).expect("create out file");
            f.write_all(text.as_bytes()).unwrap();
        }
        None => println!("{text}"),
    }
    let nv = rep.violation_count();
    let nm = rep.machinery.lock().unwrap().len();
    eprintln!(
        "rv {check}: evaluations={} distinct={} violations={} machinery_errors={} wall={:.1}s",
        j["coverage"]["evaluations"], j["coverage"]["distinct_nontrivial"], nv, nm, rep.elapsed()
    );
    if nm > 0 {
        std::process::exit(2);
    }
    if nv > 0 || rep.known_hits.load(std::sync::atomic::Ordering::Relaxed) > 0 {
        std::process::exit(1);
    }
}
