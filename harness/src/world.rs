//! G1 -- history generator / executor shared by the history-based checks. A `World` owns a database
//! on a `MonBackend`, the reference model of its contents, the live readers and savepoints, and the
//! log of commit points used by the crash and fault oracles.

use crate::backend::MonBackend;
use crate::model::*;
use crate::ops::*;
use crate::rng::Rng;
use redb::{
    Database, Durability, ReadTransaction, ReadableDatabase, Savepoint, SavepointError,
    WriteTransaction,
};
use std::collections::{BTreeMap, BTreeSet};
use std::ops::Bound;
use std::sync::Arc;

#[derive(Clone, Debug)]
pub struct Cfg {
    pub page_size: usize,
    /// region size in pages (None = redb default)
    pub region_pages: Option<u64>,
    pub cache: usize,
}

impl Cfg {
    pub fn builder(&self) -> redb::Builder {
        let mut b = Database::builder();
        b.verif_set_page_size(self.page_size);
        if let Some(rp) = self.region_pages {
            b.verif_set_region_size(rp * self.page_size as u64);
        }
        b.set_cache_size(self.cache);
        b
    }

    pub fn small() -> Cfg {
        Cfg {
            page_size: 512,
            region_pages: Some(64),
            cache: 1 << 20,
        }
    }

    pub fn pick(rng: &mut Rng) -> Cfg {
        let page_size = *rng.pick(&[512usize, 512, 512, 1024, 4096]);
        let region_pages = *rng.pick(&[Some(32u64), Some(64), Some(64), Some(256), None]);
        let cache = *rng.pick(&[0usize, 4096, 65536, 1 << 20, 1 << 30]);
        Cfg {
            page_size,
            region_pages,
            cache,
        }
    }

    pub fn json(&self) -> serde_json::Value {
        serde_json::json!({"page_size": self.page_size, "region_pages": self.region_pages, "cache": self.cache})
    }
}

#[derive(Clone, Debug)]
pub struct Opts {
    pub keyspace: u64,
    pub tables_per_kind: usize,
    pub kinds: Vec<Kind>,
    pub max_ops: usize,
    pub nondurable: bool,
    pub savepoints: bool,
    pub catalog_ops: bool,
    pub max_value_pages: usize,
    pub bulk_ops: bool,
    /// raise the frequency of savepoint operations (C07)
    pub savepoint_heavy: bool,
    /// let step() make a panic unwind through a live write transaction now and then
    pub panics: bool,
}

impl Default for Opts {
    fn default() -> Self {
        Opts {
            keyspace: 48,
            tables_per_kind: 2,
            kinds: ALL_KINDS.to_vec(),
            max_ops: 24,
            nondurable: true,
            savepoints: true,
            catalog_ops: true,
            max_value_pages: 3,
            bulk_ops: true,
            savepoint_heavy: false,
            panics: false,
        }
    }
}

#[derive(Clone, Copy, Debug, PartialEq, Eq)]
pub enum End {
    Commit,
    Abort,
    Drop,
}

#[derive(Clone, Debug)]
pub struct TxnPlan {
    pub durable: bool,
    pub two_phase: bool,
    pub quick_repair: bool,
    pub end: End,
    pub n_ops: usize,
    pub pre_ops: usize,
    pub esp_create: bool,
    pub psp_create: bool,
    pub psp_delete: Option<u64>,
    /// restore the k-th (mod count) known savepoint, valid or not
    pub restore: Option<u64>,
}

#[derive(Clone)]
pub struct CommitPoint {
    pub seq: u64,
    pub contents: Arc<Contents>,
    pub psp: BTreeMap<u64, Arc<Contents>>,
    pub durable: bool,
    /// backend log position when commit() was called
    pub req_pos: usize,
    /// backend log position when the state became durable (commit returned for a durable commit,
    /// a later durable commit / clean close for a non-durable one); usize::MAX if never
    pub ack_pos: usize,
    pub desc: String,
}

pub struct Esp {
    pub sp: Savepoint,
    pub snap: Arc<Contents>,
    pub order: u64,
    pub valid: bool,
    /// data root pinned by this savepoint (recorded when World::track_pins is on)
    pub root: redb::verif::Root,
}

#[derive(Clone)]
pub struct Psp {
    pub snap: Arc<Contents>,
    pub order: u64,
}

pub struct Reader {
    pub txn: ReadTransaction,
    pub snap: Arc<Contents>,
    pub seq: u64,
    pub root: redb::verif::Root,
}

pub struct World {
    pub cfg: Cfg,
    pub opts: Opts,
    pub be: MonBackend,
    pub db: Option<Database>,
    pub rng: Rng,
    pub visible: Arc<Contents>,
    pub psp: BTreeMap<u64, Psp>,
    pub esp: Vec<Esp>,
    pub order: u64,
    pub commits: Vec<CommitPoint>,
    pub readers: Vec<Reader>,
    pub trace: Option<Vec<String>>,
    pub counts: BTreeMap<String, u64>,
    /// set when a persistent savepoint was created in a transaction that aborted: ids are burnt
    pub next_seq: u64,
    pub sync_obs: BTreeMap<String, u64>,
    pub sync_errors: Vec<String>,
    pub be_violations: Vec<String>,
    /// judge C13's "never makes the file larger" clause (only the C13 check does; elsewhere a
    /// growth is counted, not judged, so that it is attributed to the right property)
    pub judge_compact_size: bool,
    /// record the data root every reader / ephemeral savepoint pins (for the ownership accountant)
    pub track_pins: bool,
    /// violations that do not prevent the case from continuing (reported by the check at the end)
    pub soft: Vec<String>,
    /// a panic unwound through a live write transaction in this session: redb skips the rollback
    /// on purpose, the transaction's pages stay allocated until a repair (check_integrity or the
    /// next open), so the leak clause of the accountant is suspended until then
    pub leak_latched: bool,
}

pub fn key_u64(i: u64) -> Vec<u8> {
    let k = match i % 4 {
        0 => i,
        1 => i << 40,
        2 => u64::MAX - i,
        _ => i.wrapping_mul(0x9E37_79B9_7F4A_7C15),
    };
    k.to_be_bytes().to_vec()
}

pub fn key_bytes(i: u64) -> Vec<u8> {
    if i == 0 {
        return vec![];
    }
    match i % 6 {
        1 => vec![i as u8],
        2 => format!("k{i}").into_bytes(),
        3 => {
            let mut v = vec![b'p'; 40];
            v.extend_from_slice(&i.to_be_bytes());
            v
        }
        4 => {
            let mut v = vec![b'q'; 150];
            v.extend_from_slice(&(i as u16).to_be_bytes());
            v
        }
        5 => {
            // differ only in the last byte of a long run, with 0x00 / 0xff edge bytes
            let mut v = vec![0xffu8; 20];
            v.push((i / 6) as u8);
            v
        }
        _ => i.to_be_bytes().to_vec(),
    }
}

pub fn value_len(rng: &mut Rng, page: usize, max_pages: usize) -> usize {
    match rng.below(20) {
        0 => 0,
        1..=7 => rng.range(1, 40) as usize,
        8..=10 => (page / 3).saturating_sub(24) + rng.below(32) as usize,
        11..=12 => (page / 2).saturating_sub(24) + rng.below(32) as usize,
        13..=14 => page.saturating_sub(40) + rng.below(48) as usize,
        15 => 2 * page - 24 + rng.below(32) as usize,
        16 => rng.range(1, (max_pages * page) as u64) as usize,
        _ => rng.range(40, 200) as usize,
    }
}

pub fn mm_value_bytes(j: u64, page: usize) -> Vec<u8> {
    // value identity is j; length varies so that inline <-> subtree transitions happen
    let len = match j % 7 {
        0 => 0usize,
        1..=3 => 8 + (j as usize * 13) % 40,
        4 => 60 + (j as usize * 7) % 60,
        5 => page / 2 - 12 + (j as usize % 24),
        _ => 3,
    };
    let mut v = Vec::with_capacity(len + 8);
    v.extend_from_slice(&j.to_be_bytes());
    while v.len() < len {
        v.push((j as u8).wrapping_add(v.len() as u8));
    }
    v
}

macro_rules! tr {
    ($w:expr, $($arg:tt)*) => {
        if let Some(t) = $w.trace.as_mut() {
            if std::env::var_os("RV_TRACE_STDERR").is_some() {
                eprintln!("trace: {}", format!($($arg)*));
            }
            t.push(format!($($arg)*));
        }
    };
}

pub fn open_t<'t>(txn: &'t WriteTransaction, name: &str) -> R<OpenT<'t>> {
    let kind = Kind::of_name(name).expect("table name has a kind letter");
    Ok(match kind {
        Kind::A => OpenT::A(txn.open_table(def_a(name)).map_err(se("open_table"))?),
        Kind::B => OpenT::B(txn.open_table(def_b(name)).map_err(se("open_table"))?),
        Kind::F => OpenT::F(txn.open_table(def_f(name)).map_err(se("open_table"))?),
        Kind::D => OpenT::D(
            txn.open_multimap_table(def_d(name))
                .map_err(se("open_multimap_table"))?,
        ),
        Kind::E => OpenT::E(
            txn.open_multimap_table(def_e(name))
                .map_err(se("open_multimap_table"))?,
        ),
    })
}

/// Read every table of a read transaction into model form (also checks iteration order and len).
pub fn dump_read(rt: &ReadTransaction) -> R<Contents> {
    let mut out = Contents::new();
    let mut names: Vec<String> = rt
        .list_tables()
        .map_err(se("list_tables"))?
        .map(|h| redb::TableHandle::name(&h).to_string())
        .collect();
    let mm: Vec<String> = rt
        .list_multimap_tables()
        .map_err(se("list_multimap_tables"))?
        .map(|h| redb::MultimapTableHandle::name(&h).to_string())
        .collect();
    for n in &names {
        let k = Kind::of_name(n);
        ensure!(
            k.is_some() && !k.unwrap().is_multimap(),
            "list_tables returned unexpected name {n}"
        );
    }
    for n in &mm {
        let k = Kind::of_name(n);
        ensure!(
            k.is_some() && k.unwrap().is_multimap(),
            "list_multimap_tables returned unexpected name {n}"
        );
    }
    names.extend(mm);
    for name in names {
        let t = match Kind::of_name(&name).unwrap() {
            Kind::A => TableModel::N(n_scan_all::<ColU64, ColBytes, _>(
                &rt.open_table(def_a(&name)).map_err(se("ro open_table"))?,
            )?),
            Kind::B => TableModel::N(n_scan_all::<ColBytes, ColBytes, _>(
                &rt.open_table(def_b(&name)).map_err(se("ro open_table"))?,
            )?),
            Kind::F => TableModel::N(n_scan_all::<ColU64, ColU64, _>(
                &rt.open_table(def_f(&name)).map_err(se("ro open_table"))?,
            )?),
            Kind::D => TableModel::M(m_scan_all::<ColU64, ColBytes, _>(
                &rt.open_multimap_table(def_d(&name))
                    .map_err(se("ro open_multimap_table"))?,
            )?),
            Kind::E => TableModel::M(m_scan_all::<ColBytes, ColU64, _>(
                &rt.open_multimap_table(def_e(&name))
                    .map_err(se("ro open_multimap_table"))?,
            )?),
        };
        out.insert(name, t);
    }
    Ok(out)
}

pub fn dump_db(db: &Database) -> R<Contents> {
    let rt = db.begin_read().map_err(se("begin_read"))?;
    dump_read(&rt)
}

/// Read everything visible inside a write transaction (opens every table: makes it dirty)
pub fn dump_write(txn: &WriteTransaction) -> R<Contents> {
    let mut out = Contents::new();
    let mut names: Vec<String> = txn
        .list_tables()
        .map_err(se("list_tables"))?
        .map(|h| redb::TableHandle::name(&h).to_string())
        .collect();
    names.extend(
        txn.list_multimap_tables()
            .map_err(se("list_multimap_tables"))?
            .map(|h| redb::MultimapTableHandle::name(&h).to_string()),
    );
    for name in names {
        let t = match open_t(txn, &name)? {
            OpenT::A(t) => TableModel::N(n_scan_all::<ColU64, ColBytes, _>(&t)?),
            OpenT::B(t) => TableModel::N(n_scan_all::<ColBytes, ColBytes, _>(&t)?),
            OpenT::F(t) => TableModel::N(n_scan_all::<ColU64, ColU64, _>(&t)?),
            OpenT::D(t) => TableModel::M(m_scan_all::<ColU64, ColBytes, _>(&t)?),
            OpenT::E(t) => TableModel::M(m_scan_all::<ColBytes, ColU64, _>(&t)?),
        };
        out.insert(name, t);
    }
    Ok(out)
}

/// An unexpected savepoint error: a storage failure underneath is a storage error (expected only
/// under fault injection), anything else contradicts the model
pub fn sp_fail(text: String, e: &SavepointError) -> Fail {
    match e {
        SavepointError::Storage(_) => Fail::Storage(text),
        _ => Fail::Oracle(text),
    }
}

pub fn list_psp(txn: &WriteTransaction) -> R<BTreeSet<u64>> {
    Ok(txn
        .list_persistent_savepoints()
        .map_err(se("list_persistent_savepoints"))?
        .collect())
}

impl World {
    pub fn create(cfg: Cfg, opts: Opts, rng: Rng) -> R<World> {
        let mut cfg = cfg;
        if let Some(ps) = std::env::var("RV_FORCE_PAGE_SIZE").ok().and_then(|s| s.parse().ok()) {
            // triage aid: replay the same history at another page size
            cfg.page_size = ps;
        }
        let be = MonBackend::new();
        let db = cfg
            .builder()
            .create_with_backend(be.clone())
            .map_err(se("create_with_backend"))?;
        let mut w = World {
            cfg,
            opts,
            be,
            db: Some(db),
            rng,
            visible: Arc::new(Contents::new()),
            psp: BTreeMap::new(),
            esp: vec![],
            order: 0,
            commits: vec![],
            readers: vec![],
            trace: None,
            counts: BTreeMap::new(),
            next_seq: 0,
            sync_obs: BTreeMap::new(),
            sync_errors: vec![],
            be_violations: vec![],
            judge_compact_size: false,
            track_pins: false,
            soft: vec![],
            leak_latched: false,
        };
        w.push_commit(true, 0, 0, "create");
        Ok(w)
    }

    /// Collect what the backend's monitors observed so far
    pub fn harvest(&mut self) {
        let mut st = self.be.lock();
        for (k, v) in std::mem::take(&mut st.sync_obs) {
            let e = self.sync_obs.entry(k.clone()).or_insert(0);
            if k.starts_with("max.") {
                *e = (*e).max(v);
            } else {
                *e += v;
            }
        }
        self.sync_errors.append(&mut st.sync_errors);
        self.be_violations.append(&mut st.violations);
    }

    pub fn bump(&mut self, k: &str) {
        *self.counts.entry(k.to_string()).or_insert(0) += 1;
    }

    pub fn db(&self) -> &Database {
        self.db.as_ref().expect("database open")
    }

    fn psp_snaps(&self) -> BTreeMap<u64, Arc<Contents>> {
        self.psp.iter().map(|(k, v)| (*k, v.snap.clone())).collect()
    }

    fn push_commit(&mut self, durable: bool, req_pos: usize, ack_pos: usize, desc: &str) {
        let seq = self.next_seq;
        self.next_seq += 1;
        let cp = CommitPoint {
            seq,
            contents: self.visible.clone(),
            psp: self.psp_snaps(),
            durable,
            req_pos,
            ack_pos,
            desc: desc.to_string(),
        };
        if durable {
            // everything committed before is durable as of now too
            for c in self.commits.iter_mut() {
                if c.ack_pos == usize::MAX {
                    c.ack_pos = ack_pos;
                }
            }
        }
        self.commits.push(cp);
    }

    /// everything committed so far has become durable (clean close, check_integrity, compact)
    pub fn mark_all_durable(&mut self) {
        let pos = self.be.log_len();
        for c in self.commits.iter_mut() {
            if c.ack_pos == usize::MAX {
                c.ack_pos = pos;
            }
        }
    }

    pub fn last_seq(&self) -> u64 {
        self.commits.last().map(|c| c.seq).unwrap_or(0)
    }

    // ---- planning -------------------------------------------------------------------------------

    pub fn plan(&mut self) -> TxnPlan {
        let o = self.opts.clone();
        let rng = &mut self.rng;
        let durable = !o.nondurable || rng.chance(3, 5);
        let quick_repair = rng.chance(1, 5);
        let two_phase = quick_repair || rng.chance(1, 4);
        let end = match rng.below(10) {
            0..=6 => End::Commit,
            7..=8 => End::Abort,
            _ => End::Drop,
        };
        let mut p = TxnPlan {
            durable,
            two_phase,
            quick_repair,
            end,
            n_ops: rng.usize(o.max_ops + 1),
            pre_ops: 0,
            esp_create: false,
            psp_create: false,
            psp_delete: None,
            restore: None,
        };
        if o.savepoints {
            let f = if o.savepoint_heavy { 3 } else { 1 };
            p.esp_create = rng.chance(f, 6);
            p.psp_create = rng.chance(f, 8);
            if rng.chance(f, 8) {
                p.psp_delete = Some(rng.next());
            }
            if rng.chance(f, 6) {
                p.restore = Some(rng.next());
                if rng.chance(1, 4) {
                    p.pre_ops = rng.usize(6);
                }
                if rng.chance(1, 2) {
                    p.n_ops = rng.usize(5);
                }
            }
        }
        p
    }

    // ---- the transaction executor ----------------------------------------------------------------

    fn pick_table(&mut self, work: &Contents) -> String {
        // mostly existing tables, sometimes a fresh name
        let kinds = self.opts.kinds.clone();
        if !work.is_empty() && self.rng.chance(4, 5) {
            let names: Vec<&String> = work.keys().collect();
            return (*self.rng.pick(&names)).clone();
        }
        let kind = *self.rng.pick(&kinds);
        kind.name(self.rng.usize(self.opts.tables_per_kind))
    }

    fn gen_key(&mut self, kind: Kind) -> Vec<u8> {
        let i = self.rng.below(self.opts.keyspace);
        if kind.key_is_u64() {
            key_u64(i)
        } else {
            key_bytes(i)
        }
    }

    fn gen_value(&mut self, kind: Kind) -> Vec<u8> {
        if kind.value_is_u64() {
            self.rng.next().to_be_bytes().to_vec()
        } else {
            let l = value_len(&mut self.rng, self.cfg.page_size, self.opts.max_value_pages);
            self.rng.bytes(l)
        }
    }

    fn gen_mm_value(&mut self, kind: Kind) -> Vec<u8> {
        let j = if self.rng.chance(1, 10) {
            self.rng.below(400)
        } else {
            self.rng.below(24)
        };
        if kind.value_is_u64() {
            j.wrapping_mul(0x0101_0101_0101).to_be_bytes().to_vec()
        } else {
            mm_value_bytes(j, self.cfg.page_size)
        }
    }

    fn gen_bounds(&mut self, kind: Kind) -> (Bound<Vec<u8>>, Bound<Vec<u8>>) {
        let mut mk = |w: &mut World| match w.rng.below(4) {
            0 => Bound::Unbounded,
            1 => Bound::Excluded(w.gen_key(kind)),
            _ => Bound::Included(w.gen_key(kind)),
        };
        let a = mk(self);
        let b = mk(self);
        // mostly well-formed ranges, sometimes inverted
        let key = |b: &Bound<Vec<u8>>| match b {
            Bound::Included(x) | Bound::Excluded(x) => Some(x.clone()),
            Bound::Unbounded => None,
        };
        match (key(&a), key(&b)) {
            (Some(x), Some(y)) if x > y && self.rng.chance(9, 10) => (b, a),
            _ => (a, b),
        }
    }

    /// Execute `n` random operations against `txn`, mirroring them in `work`.
    /// returns whether the transaction certainly became dirty (a table was opened, deleted or
    /// renamed); a rename that found no free target name is a no-op
    pub fn do_ops(&mut self, txn: &WriteTransaction, work: &mut Contents, n: usize) -> R<bool> {
        let mut touched = false;
        let mut open: BTreeMap<String, OpenT<'_>> = BTreeMap::new();
        for _ in 0..n {
            let roll = self.rng.below(100);
            if self.opts.catalog_ops && roll < 4 && !work.is_empty() {
                // catalog operation on an existing table
                let names: Vec<String> = work.keys().cloned().collect();
                let name = self.rng.pick(&names).clone();
                open.remove(&name);
                let kind = Kind::of_name(&name).unwrap();
                if self.rng.bool() {
                    tr!(self, "delete_table {name}");
                    let existed = match kind {
                        Kind::A => txn.delete_table(def_a(&name)),
                        Kind::B => txn.delete_table(def_b(&name)),
                        Kind::F => txn.delete_table(def_f(&name)),
                        Kind::D => txn.delete_multimap_table(def_d(&name)),
                        Kind::E => txn.delete_multimap_table(def_e(&name)),
                    }
                    .map_err(se("delete_table"))?;
                    ensure!(existed, "delete_table({name}) returned false for an existing table");
                    work.remove(&name);
                    touched = true;
                    self.bump("op.delete_table");
                } else {
                    let mut to = None;
                    for i in 0..self.opts.tables_per_kind + 2 {
                        let cand = kind.name(i);
                        if !work.contains_key(&cand) {
                            to = Some(cand);
                            break;
                        }
                    }
                    if let Some(to) = to {
                        open.remove(&to);
                        tr!(self, "rename_table {name} -> {to}");
                        match kind {
                            Kind::A => txn.rename_table(def_a(&name), def_a(&to)),
                            Kind::B => txn.rename_table(def_b(&name), def_b(&to)),
                            Kind::F => txn.rename_table(def_f(&name), def_f(&to)),
                            Kind::D => txn.rename_multimap_table(def_d(&name), def_d(&to)),
                            Kind::E => txn.rename_multimap_table(def_e(&name), def_e(&to)),
                        }
                        .map_err(se("rename_table"))?;
                        let t = work.remove(&name).unwrap();
                        work.insert(to, t);
                        touched = true;
                        self.bump("op.rename_table");
                    }
                }
                continue;
            }
            let name = self.pick_table(work);
            let kind = Kind::of_name(&name).unwrap();
            if !open.contains_key(&name) {
                if open.len() >= 3 {
                    // close a random handle, so handle drops interleave with operations
                    let ks: Vec<String> = open.keys().cloned().collect();
                    let victim = self.rng.pick(&ks).clone();
                    open.remove(&victim);
                }
                tr!(self, "open {name}");
                let t = open_t(txn, &name)?;
                touched = true;
                work.entry(name.clone()).or_insert_with(|| TableModel::new(kind));
                open.insert(name.clone(), t);
            }
            let model = work.get_mut(&name).unwrap();
            let bulk = self.opts.bulk_ops;
            let t = open.get_mut(&name).unwrap();
            if !kind.is_multimap() {
                let m = model.n();
                let opk = self.rng.below(100);
                macro_rules! nd {
                    ($f:ident $(, $a:expr)*) => {
                        match t {
                            OpenT::A(t) => $f::<ColU64, ColBytes>(t, m $(, $a)*),
                            OpenT::B(t) => $f::<ColBytes, ColBytes>(t, m $(, $a)*),
                            OpenT::F(t) => $f::<ColU64, ColU64>(t, m $(, $a)*),
                            _ => unreachable!(),
                        }
                    };
                }
                macro_rules! ndr {
                    ($f:ident $(, $a:expr)*) => {
                        match t {
                            OpenT::A(t) => $f::<ColU64, ColBytes, _>(&*t, m $(, $a)*),
                            OpenT::B(t) => $f::<ColBytes, ColBytes, _>(&*t, m $(, $a)*),
                            OpenT::F(t) => $f::<ColU64, ColU64, _>(&*t, m $(, $a)*),
                            _ => unreachable!(),
                        }
                    };
                }
                match opk {
                    0..=44 => {
                        let k = self.gen_key(kind);
                        let v = self.gen_value(kind);
                        tr!(self, "{name}.insert {} <- {}B", hex(&k), v.len());
                        nd!(n_insert, &k, &v)?;
                        self.bump("op.insert");
                    }
                    45..=62 => {
                        let k = self.gen_key(kind);
                        tr!(self, "{name}.remove {}", hex(&k));
                        nd!(n_remove, &k)?;
                        self.bump("op.remove");
                    }
                    63..=70 => {
                        let k = self.gen_key(kind);
                        ndr!(n_get, &k)?;
                        self.bump("op.get");
                    }
                    71..=76 => {
                        let (lo, hi) = self.gen_bounds(kind);
                        let pat = self.rng.next();
                        let lim = self.rng.range(1, 200) as usize;
                        ndr!(n_range, &lo, &hi, pat, lim)?;
                        self.bump("op.range");
                    }
                    77..=79 => {
                        ndr!(n_len)?;
                        ndr!(n_first_last)?;
                        self.bump("op.len");
                    }
                    80..=83 => {
                        let first = self.rng.bool();
                        tr!(self, "{name}.pop first={first}");
                        nd!(n_pop, first)?;
                        self.bump("op.pop");
                    }
                    84..=89 if bulk => {
                        let range = if self.rng.bool() {
                            Some(self.gen_bounds(kind))
                        } else {
                            None
                        };
                        let salt = self.rng.next();
                        let modulus = self.rng.range(2, 5);
                        tr!(self, "{name}.retain range={range:?} salt={salt} mod={modulus}");
                        nd!(n_retain, range, salt, modulus)?;
                        self.bump("op.retain");
                    }
                    90..=95 if bulk => {
                        let range = if self.rng.bool() {
                            Some(self.gen_bounds(kind))
                        } else {
                            None
                        };
                        let salt = self.rng.next();
                        let modulus = self.rng.range(2, 5);
                        let take = self.rng.usize(12);
                        let pat = self.rng.next();
                        let close = self.rng.bool();
                        tr!(self, "{name}.extract_if range={range:?} salt={salt} mod={modulus} take={take} pat={pat:x} close={close}");
                        nd!(n_extract, range, salt, modulus, take, pat, close)?;
                        self.bump("op.extract_if");
                    }
                    _ => {
                        let k = self.gen_key(kind);
                        let v = self.gen_value(kind);
                        tr!(self, "{name}.insert(b) {} <- {}B", hex(&k), v.len());
                        nd!(n_insert, &k, &v)?;
                        self.bump("op.insert");
                    }
                }
            } else {
                let m = model.m();
                let opk = self.rng.below(100);
                macro_rules! md {
                    ($f:ident $(, $a:expr)*) => {
                        match t {
                            OpenT::D(t) => $f::<ColU64, ColBytes>(t, m $(, $a)*),
                            OpenT::E(t) => $f::<ColBytes, ColU64>(t, m $(, $a)*),
                            _ => unreachable!(),
                        }
                    };
                }
                macro_rules! mdr {
                    ($f:ident $(, $a:expr)*) => {
                        match t {
                            OpenT::D(t) => $f::<ColU64, ColBytes, _>(&*t, m $(, $a)*),
                            OpenT::E(t) => $f::<ColBytes, ColU64, _>(&*t, m $(, $a)*),
                            _ => unreachable!(),
                        }
                    };
                }
                match opk {
                    0..=49 => {
                        let k = self.gen_key(kind);
                        let v = self.gen_mm_value(kind);
                        tr!(self, "{name}.mm_insert {} += {}", hex(&k), hex(&v));
                        md!(m_insert, &k, &v)?;
                        self.bump("op.mm_insert");
                    }
                    50..=69 => {
                        let k = self.gen_key(kind);
                        let v = self.gen_mm_value(kind);
                        tr!(self, "{name}.mm_remove {} -= {}", hex(&k), hex(&v));
                        md!(m_remove, &k, &v)?;
                        self.bump("op.mm_remove");
                    }
                    70..=77 => {
                        let k = self.gen_key(kind);
                        tr!(self, "{name}.mm_remove_all {}", hex(&k));
                        md!(m_remove_all, &k)?;
                        self.bump("op.mm_remove_all");
                    }
                    78..=89 => {
                        let k = self.gen_key(kind);
                        let back = self.rng.bool();
                        mdr!(m_get, &k, back)?;
                        self.bump("op.mm_get");
                    }
                    90..=95 => {
                        let (lo, hi) = self.gen_bounds(kind);
                        let back = self.rng.bool();
                        mdr!(m_range, &lo, &hi, back)?;
                        self.bump("op.mm_range");
                    }
                    _ => {
                        mdr!(m_len)?;
                        self.bump("op.mm_len");
                    }
                }
            }
        }
        Ok(touched)
    }

    fn all_savepoint_orders(&self) -> Vec<(u64, bool, usize, u64)> {
        // (order, is_persistent, index into esp / 0, psp id)
        let mut v: Vec<(u64, bool, usize, u64)> = vec![];
        for (i, e) in self.esp.iter().enumerate() {
            v.push((e.order, false, i, 0));
        }
        for (id, p) in &self.psp {
            v.push((p.order, true, 0, *id));
        }
        v.sort();
        v
    }

    /// Run one write transaction according to `plan`. Returns Ok(true) if it committed.
    pub fn run_txn(&mut self, plan: &TxnPlan) -> R<bool> {
        tr!(self, "begin_write {plan:?}");
        let root_at_begin: redb::verif::Root = if self.track_pins && plan.esp_create {
            self.db().verif_snapshot().mem.current_data_root
        } else {
            None
        };
        let mut txn = self.db().begin_write().map_err(se("begin_write"))?;
        self.bump("txn.begin");
        let mut durable = plan.durable;
        if !plan.durable {
            txn.set_durability(Durability::None)
                .map_err(se("set_durability"))?;
        }
        txn.set_two_phase_commit(plan.two_phase);
        txn.set_quick_repair(plan.quick_repair);

        let mut work: Contents = (*self.visible).clone();
        // transaction-local savepoint effects, applied to the world only on commit
        let mut psp_created: Vec<(u64, Psp)> = vec![];
        let mut psp_deleted: Vec<u64> = vec![];
        let mut esp_created: Vec<Esp> = vec![];
        let mut invalidate_after: Option<u64> = None;
        let mut dirty = false;
        let mut persistent_modified = false;

        // -- savepoint creation (must precede any table access)
        if plan.esp_create {
            match txn.ephemeral_savepoint() {
                Ok(sp) => {
                    self.order += 1;
                    tr!(self, "ephemeral_savepoint -> order {}", self.order);
                    esp_created.push(Esp {
                        sp,
                        snap: self.visible.clone(),
                        order: self.order,
                        valid: true,
                        root: root_at_begin,
                    });
                    self.bump("sp.ephemeral_created");
                }
                Err(e) => return Err(sp_fail(format!("ephemeral_savepoint on a clean transaction failed: {e}"), &e)),
            }
        }
        if plan.psp_create {
            match txn.persistent_savepoint() {
                Ok(id) => {
                    ensure!(durable, "persistent_savepoint succeeded in a Durability::None transaction");
                    self.order += 1;
                    tr!(self, "persistent_savepoint -> id {id} order {}", self.order);
                    ensure!(
                        !self.psp.contains_key(&id),
                        "persistent_savepoint returned id {id} which is already in use"
                    );
                    psp_created.push((
                        id,
                        Psp {
                            snap: self.visible.clone(),
                            order: self.order,
                        },
                    ));
                    persistent_modified = true;
                    self.bump("sp.persistent_created");
                }
                Err(SavepointError::ImmediateDurabilityRequired) => {
                    ensure!(!durable, "persistent_savepoint refused with ImmediateDurabilityRequired in a durable transaction");
                    self.bump("sp.persistent_refused_nondurable");
                }
                Err(e) => return Err(sp_fail(format!("persistent_savepoint failed: {e}"), &e)),
            }
        }
        if let Some(pick) = plan.psp_delete {
            // candidates: committed savepoints and the one created a moment ago in this transaction
            let mut ids: Vec<u64> = self.psp.keys().copied().collect();
            ids.extend(psp_created.iter().map(|(i, _)| *i));
            let (id, exists) = if !ids.is_empty() && pick % 4 != 0 {
                (ids[(pick / 4) as usize % ids.len()], true)
            } else {
                (1_000_000 + pick % 7, false)
            };
            match txn.delete_persistent_savepoint(id) {
                Ok(b) => {
                    ensure!(durable, "delete_persistent_savepoint succeeded in a Durability::None transaction");
                    ensure!(
                        b == exists,
                        "delete_persistent_savepoint({id}) returned {b}, model says exists={exists}"
                    );
                    tr!(self, "delete_persistent_savepoint {id} -> {b}");
                    if b {
                        if psp_created.iter().any(|(i, _)| *i == id) {
                            psp_created.retain(|(i, _)| *i != id);
                            self.bump("sp.persistent_created_and_deleted_in_one_txn");
                        } else {
                            psp_deleted.push(id);
                        }
                        persistent_modified = true;
                        self.bump("sp.persistent_deleted");
                    }
                }
                Err(SavepointError::ImmediateDurabilityRequired) => {
                    ensure!(!durable, "delete_persistent_savepoint refused in a durable transaction");
                }
                Err(e) => return Err(sp_fail(format!("delete_persistent_savepoint failed: {e}"), &e)),
            }
        }
        if persistent_modified && self.rng.chance(1, 4) {
            // durability may not be lowered any more
            match txn.set_durability(Durability::None) {
                Err(redb::SetDurabilityError::PersistentSavepointModified) => {
                    self.bump("sp.durability_downgrade_refused");
                }
                Ok(()) => {
                    return oracle(
                        "set_durability(None) accepted after a persistent savepoint was created/deleted"
                            .into(),
                    );
                }
                Err(e) => return oracle(format!("set_durability: unexpected {e}")),
            }
        }
        // listing inside the transaction reflects the staged changes
        {
            let got = list_psp(&txn)?;
            let mut exp: BTreeSet<u64> = self.psp.keys().copied().collect();
            for (id, _) in &psp_created {
                exp.insert(*id);
            }
            for id in &psp_deleted {
                exp.remove(id);
            }
            ensure!(
                got == exp,
                "list_persistent_savepoints inside txn = {got:?}, model {exp:?}"
            );
        }

        // -- optional writes before a restore
        if plan.pre_ops > 0 {
            if self.do_ops(&txn, &mut work, plan.pre_ops)? {
                dirty = true;
            }
        }

        // -- restore
        if let Some(pick) = plan.restore {
            let all = self.all_savepoint_orders();
            if !all.is_empty() {
                let (order, is_p, idx, id) = all[pick as usize % all.len()];
                // a savepoint deleted earlier in this transaction cannot be fetched any more
                let later_persistent = self
                    .psp
                    .iter()
                    .filter(|(pid, _)| !psp_deleted.contains(pid))
                    .any(|(_, p)| p.order > order)
                    || psp_created.iter().any(|(_, p)| p.order > order);
                let res = if is_p {
                    match txn.get_persistent_savepoint(id) {
                        Ok(sp) => {
                            ensure!(
                                !psp_deleted.contains(&id),
                                "get_persistent_savepoint({id}) succeeded after it was deleted in this transaction"
                            );
                            Some(txn.restore_savepoint(&sp))
                        }
                        Err(SavepointError::InvalidSavepoint) => {
                            ensure!(
                                psp_deleted.contains(&id),
                                "get_persistent_savepoint({id}) returned InvalidSavepoint for a live savepoint"
                            );
                            None
                        }
                        Err(e) => return Err(sp_fail(format!("get_persistent_savepoint({id}) failed: {e}"), &e)),
                    }
                } else {
                    Some(txn.restore_savepoint(&self.esp[idx].sp))
                };
                if let Some(res) = res {
                    let valid = if is_p { true } else { self.esp[idx].valid };
                    let snap = if is_p {
                        self.psp[&id].snap.clone()
                    } else {
                        self.esp[idx].snap.clone()
                    };
                    match res {
                        Ok(()) => {
                            ensure!(valid, "restore of an invalidated savepoint (order {order}) succeeded");
                            ensure!(
                                durable || !later_persistent,
                                "non-durable restore succeeded although a later persistent savepoint exists"
                            );
                            tr!(self, "restore_savepoint order {order} persistent={is_p}");
                            work = (*snap).clone();
                            if self.opts.savepoint_heavy && self.rng.bool() {
                                let seen = dump_write(&txn)?;
                                if let Some(d) = diff_contents(&work, &seen) {
                                    return oracle(format!(
                                        "right after restore_savepoint the transaction does not see the captured state: {d}"
                                    ));
                                }
                            }
                            dirty = true;
                            invalidate_after = Some(order);
                            // later persistent savepoints are deleted by the restore
                            let later: Vec<u64> = self
                                .psp
                                .iter()
                                .filter(|(_, p)| p.order > order)
                                .map(|(i, _)| *i)
                                .collect();
                            for l in later {
                                if !psp_deleted.contains(&l) {
                                    psp_deleted.push(l);
                                }
                            }
                            psp_created.retain(|(_, p)| p.order <= order);
                            for e in esp_created.iter_mut() {
                                if e.order > order {
                                    e.valid = false;
                                }
                            }
                            self.bump("sp.restored");
                            // what the transaction now sees must be the snapshot
                        }
                        Err(SavepointError::InvalidSavepoint) => {
                            ensure!(
                                !valid,
                                "restore of a valid savepoint (order {order}) returned InvalidSavepoint"
                            );
                            self.bump("sp.restore_refused_invalid");
                        }
                        Err(SavepointError::ImmediateDurabilityRequired) => {
                            ensure!(
                                !durable && later_persistent,
                                "restore returned ImmediateDurabilityRequired (durable={durable}, later persistent={later_persistent})"
                            );
                            self.bump("sp.restore_refused_durability");
                        }
                        Err(e) => return Err(sp_fail(format!("restore_savepoint failed: {e}"), &e)),
                    }
                }
            }
        }

        // -- savepoint creation in a dirty transaction must be refused
        if dirty && self.rng.chance(1, 3) {
            match txn.ephemeral_savepoint() {
                Err(SavepointError::InvalidSavepoint) => self.bump("sp.refused_dirty"),
                Ok(_) => return oracle("ephemeral_savepoint accepted in a dirty transaction".into()),
                Err(e) => return Err(sp_fail(format!("ephemeral_savepoint in dirty txn: unexpected {e}"), &e)),
            }
        }

        // -- main operations
        if plan.n_ops > 0 {
            self.do_ops(&txn, &mut work, plan.n_ops)?;
        }
        // effective durability may have been forced back to Immediate by a refused downgrade
        if !plan.durable {
            durable = false;
        }

        // -- end
        match plan.end {
            End::Commit => {
                let req_pos = self.be.log_len();
                self.be.mark(format!("commit requested seq {}", self.next_seq));
                // the in-flight commit point exists from the moment commit() is called
                let prev_visible = self.visible.clone();
                let prev_psp = self.psp.clone();
                self.visible = Arc::new(work);
                for id in &psp_deleted {
                    self.psp.remove(id);
                }
                for (id, p) in psp_created {
                    self.psp.insert(id, p);
                }
                self.push_commit(
                    false,
                    req_pos,
                    usize::MAX,
                    &format!("txn durable={durable} 2pc={} qr={}", plan.two_phase, plan.quick_repair),
                );
                match txn.commit() {
                    Ok(()) => {
                        tr!(self, "commit ok");
                        let ack = self.be.log_len();
                        self.be.mark(format!("commit acked seq {}", self.next_seq - 1));
                        if durable {
                            let last = self.commits.len() - 1;
                            self.commits[last].durable = true;
                            for c in self.commits.iter_mut() {
                                if c.ack_pos == usize::MAX {
                                    c.ack_pos = ack;
                                }
                            }
                        }
                        self.esp.extend(esp_created);
                        if let Some(o) = invalidate_after {
                            for e in self.esp.iter_mut() {
                                if e.order > o {
                                    e.valid = false;
                                }
                            }
                        }
                        self.bump(if durable { "txn.commit_durable" } else { "txn.commit_nondurable" });
                        if plan.quick_repair {
                            self.bump("txn.commit_quick_repair");
                        } else if plan.two_phase {
                            self.bump("txn.commit_2pc");
                        }
                        Ok(true)
                    }
                    Err(e) => {
                        // the commit may or may not have taken effect; the caller (fault checks)
                        // decides. Keep the in-flight commit point but restore the visible model
                        // to "unknown": callers must reopen.
                        let _ = (prev_visible, prev_psp);
                        Err(Fail::Storage(format!("commit: {e}")))
                    }
                }
            }
            End::Abort => {
                tr!(self, "abort");
                txn.abort().map_err(se("abort"))?;
                self.bump("txn.abort");
                // an ephemeral savepoint created in an aborted transaction stays usable
                for mut e in esp_created {
                    e.valid = true;
                    self.esp.push(e);
                }
                Ok(false)
            }
            End::Drop => {
                tr!(self, "drop txn");
                drop(txn);
                self.bump("txn.drop");
                for mut e in esp_created {
                    e.valid = true;
                    self.esp.push(e);
                }
                Ok(false)
            }
        }
    }

    // ---- readers -----------------------------------------------------------------------------------

    pub fn open_reader(&mut self) -> R<()> {
        let txn = self.db().begin_read().map_err(se("begin_read"))?;
        let root = if self.track_pins {
            self.db().verif_snapshot().mem.current_data_root
        } else {
            None
        };
        self.readers.push(Reader {
            txn,
            snap: self.visible.clone(),
            seq: self.last_seq(),
            root,
        });
        self.bump("reader.open");
        Ok(())
    }

    pub fn verify_readers(&mut self) -> R<()> {
        for r in &self.readers {
            let got = dump_read(&r.txn)?;
            if let Some(d) = diff_contents(&r.snap, &got) {
                return oracle(format!(
                    "reader begun at commit seq {} no longer sees its snapshot: {d}",
                    r.seq
                ));
            }
        }
        let n = self.readers.len() as u64;
        *self.counts.entry("reader.verified".into()).or_insert(0) += n;
        Ok(())
    }

    pub fn drop_random_reader(&mut self) {
        if !self.readers.is_empty() {
            let i = self.rng.usize(self.readers.len());
            self.readers.swap_remove(i);
            self.bump("reader.drop");
        }
    }

    pub fn drop_random_esp(&mut self) {
        if !self.esp.is_empty() {
            let i = self.rng.usize(self.esp.len());
            self.esp.swap_remove(i);
            self.bump("sp.ephemeral_dropped");
        }
    }

    /// Roots pinned by live readers and ephemeral savepoints (needs track_pins)
    pub fn pins(&self) -> Vec<(String, redb::verif::Root)> {
        let mut v = vec![];
        for r in &self.readers {
            v.push((format!("the read transaction begun at commit seq {}", r.seq), r.root));
        }
        for e in &self.esp {
            v.push((format!("the ephemeral savepoint of order {}", e.order), e.root));
        }
        v
    }

    /// Compare what a fresh reader sees with the model.
    pub fn verify_visible(&mut self) -> R<()> {
        let got = dump_db(self.db())?;
        if let Some(d) = diff_contents(&self.visible, &got) {
            return oracle(format!("committed state differs from the model: {d}"));
        }
        Ok(())
    }

    /// Clean close and reopen on the same storage.
    pub fn reopen(&mut self) -> R<()> {
        tr!(self, "close + reopen");
        self.readers.clear();
        self.esp.clear();
        let db = self.db.take();
        drop(db);
        self.mark_all_durable();
        self.harvest();
        let img = self.be.image();
        let counts_close = self.be.close_count();
        if !self.be_violations.is_empty() {
            return oracle(format!("backend contract: {}", self.be_violations.join("; ")));
        }
        ensure!(counts_close == 1, "backend close() called {counts_close} times on drop");
        // a fresh backend object over the same bytes (the old one is closed)
        let be = MonBackend::from_image(img);
        {
            let old = self.be.lock();
            let mut new = be.lock();
            new.record = old.record;
            new.base = old.base.clone();
            new.log = old.log.clone();
            new.marks = old.marks.clone();
            new.protect = old.protect.clone();
            new.sync_hook = old.sync_hook.clone();
            new.protected = old.protected.clone();
            new.protected_max = old.protected_max;
        }
        self.be = be;
        let db = self
            .cfg
            .builder()
            .create_with_backend(self.be.clone())
            .map_err(se("reopen"))?;
        self.db = Some(db);
        self.leak_latched = false;
        self.bump("db.reopen");
        self.verify_visible()?;
        let txn = self.db().begin_write().map_err(se("begin_write"))?;
        let got = list_psp(&txn)?;
        txn.abort().map_err(se("abort"))?;
        let exp: BTreeSet<u64> = self.psp.keys().copied().collect();
        ensure!(got == exp, "persistent savepoints after reopen {got:?}, model {exp:?}");
        Ok(())
    }

    /// Continue on a crash image that recovered to commit point `idx`: fresh backend, reopened
    /// database, model rolled back to that commit point, recording restarted.
    pub fn adopt_image(&mut self, img: Vec<u8>, idx: usize) -> R<()> {
        self.readers.clear();
        self.esp.clear();
        self.db = None;
        self.leak_latched = false;
        self.harvest();
        let hook = self.be.lock().sync_hook.clone();
        let be = MonBackend::from_image(img);
        be.lock().sync_hook = hook;
        self.be = be;
        let db = self
            .cfg
            .builder()
            .create_with_backend(self.be.clone())
            .map_err(se("open of a crash image"))?;
        self.db = Some(db);
        let cp = self.commits[idx].clone();
        self.visible = cp.contents.clone();
        // no ephemeral savepoint survives a crash, and persistent ids grow with creation time, so
        // creation order is the rank of the id
        let mut psp = BTreeMap::new();
        for (k, (id, snap)) in cp.psp.iter().enumerate() {
            psp.insert(
                *id,
                Psp {
                    snap: snap.clone(),
                    order: k as u64 + 1,
                },
            );
        }
        self.order = self.order.max(psp.len() as u64 + 1);
        self.psp = psp;
        self.commits.truncate(idx + 1);
        self.be.start_recording();
        for c in self.commits.iter_mut() {
            c.req_pos = 0;
            c.ack_pos = 0;
            c.durable = true;
        }
        self.bump("db.adopted_crash_image");
        Ok(())
    }

    pub fn close(&mut self) {
        self.readers.clear();
        self.esp.clear();
        self.db = None;
        self.harvest();
    }

    /// check_integrity on a healthy database: must be Ok(true) and change nothing.
    pub fn check_integrity(&mut self) -> R<()> {
        // the state the call starts in is part of every verdict it produces
        let ctx = if self.leak_latched {
            format!(
                " [caught-panic leak latched, {}, page size {}]",
                if self.commits.last().map(|c| !c.durable).unwrap_or(false) {
                    "pending non-durable commit"
                } else {
                    "no pending non-durable commit"
                },
                if self.cfg.page_size < 4096 { "< 4096" } else { ">= 4096" }
            )
        } else {
            String::new()
        };
        match self.check_integrity_inner() {
            Err(Fail::Oracle(m)) if !ctx.is_empty() => Err(Fail::Oracle(format!("check_integrity(){ctx}: {m}"))),
            r => r,
        }
    }

    fn check_integrity_inner(&mut self) -> R<()> {
        tr!(self, "check_integrity");
        self.readers.clear();
        self.esp.clear();
        let latched = self.leak_latched;
        let db = self.db.as_mut().expect("database open");
        let call = |db: &mut Database| -> R<bool> {
            match crate::report::guarded(|| db.check_integrity()) {
                Ok(Ok(b)) => Ok(b),
                Ok(Err(e)) => Err(Fail::Storage(format!("check_integrity: {e}"))),
                Err(p) => oracle(format!("check_integrity() panicked: {}", p.short())),
            }
        };
        match call(db)? {
            true => {}
            false if latched => {
                // the pages leaked by the caught panic were reclaimed: a repair, as documented
                self.counts.entry("db.check_integrity_repaired_caught_panic_leak".into()).and_modify(|c| *c += 1).or_insert(1);
                if !call(db)? {
                    return oracle("check_integrity() returned Ok(false) twice in a row".into());
                }
            }
            false => {
                return oracle("check_integrity() on a database produced by a fault-free history returned Ok(false)".into());
            }
        }
        self.leak_latched = false;
        self.mark_all_durable();
        self.bump("db.check_integrity");
        self.verify_visible()
    }

    /// compact(): refused while savepoints exist, otherwise contents unchanged and file not larger
    pub fn compact(&mut self) -> R<()> {
        tr!(self, "compact");
        self.readers.clear();
        self.esp.clear();
        let before_len = self.be.lock().data.len();
        let has_psp = !self.psp.is_empty();
        let allocated_before = {
            let txn = self.db().begin_write().map_err(se("begin_write"))?;
            let a = txn.stats().map_err(se("stats"))?.allocated_pages();
            txn.abort().map_err(se("abort"))?;
            a
        };
        let db = self.db.as_mut().expect("database open");
        match db.compact() {
            Ok(_) => {
                ensure!(!has_psp, "compact() ran although a persistent savepoint exists");
                let after_len = self.be.lock().data.len();
                if after_len > before_len {
                    self.bump("db.compact_grew_file");
                    let ps = self.cfg.page_size;
                    let free_before = (before_len / ps) as u64 - 1 - allocated_before.min((before_len / ps) as u64 - 1);
                    if self.judge_compact_size {
                        let grew = ((after_len - before_len) / ps) as u64;
                        let region = self.cfg.region_pages.unwrap_or(u64::MAX);
                        // classification used by known_findings.json: the file ends at most one
                        // region beyond where it was (compact()'s own bookkeeping commits need
                        // scratch pages and the final trim does not give them back); growth by more
                        // than a region would be something else
                        let class = if grew <= region {
                            "growth within one region"
                        } else {
                            "growth beyond one region"
                        };
                        self.soft.push(format!(
                            "compact() grew the file from {before_len} to {after_len} bytes [{class}] (grew by {grew} pages; {free_before} free pages before; region of {region} pages)"
                        ));
                    }
                }
                self.mark_all_durable();
                self.bump("db.compact");
            }
            Err(redb::CompactionError::PersistentSavepointExists) => {
                ensure!(has_psp, "compact() reported PersistentSavepointExists but none exists");
                self.bump("db.compact_refused_psp");
            }
            Err(redb::CompactionError::Storage(e)) => {
                return Err(Fail::Storage(format!("compact: {e}")));
            }
            Err(e) => return oracle(format!("compact() failed: {e}")),
        }
        self.verify_visible()
    }

    /// One random step of a history: a write transaction, or reader / savepoint / reopen activity.
    /// A panic unwinds through a live write transaction and is caught by the application. redb
    /// skips the rollback while unwinding (the pages leak for the rest of the session and
    /// `needs_repair` is latched); nothing the transaction did may become visible.
    pub fn panic_txn(&mut self) -> R<()> {
        tr!(self, "panic inside a write transaction (caught)");
        let n = self.rng.range(1, 12);
        let big = self.rng.range(1, 3 * self.cfg.page_size as u64) as usize;
        let name = Kind::A.name(0);
        let db = self.db.as_ref().expect("database open");
        let r = crate::report::guarded(|| -> Result<(), String> {
            let txn = db.begin_write().map_err(|e| e.to_string())?;
            {
                let mut t = txn.open_table(def_a(&name)).map_err(|e| e.to_string())?;
                for i in 0..n {
                    t.insert(1_000_000 + i, vec![0xEE; big].as_slice()).map_err(|e| e.to_string())?;
                }
            }
            panic!("rv: application panic while a write transaction is live");
        });
        match r {
            Err(p) if p.message.contains("rv: application panic") => {}
            Err(p) => return oracle(format!("panic inside the doomed transaction: {}", p.short())),
            Ok(Err(e)) => return Err(Fail::Storage(format!("doomed transaction: {e}"))),
            Ok(Ok(())) => unreachable!(),
        }
        self.leak_latched = true;
        self.bump("txn.panic_unwound");
        self.verify_visible()
    }

    pub fn step(&mut self) -> R<()> {
        let roll = self.rng.below(100);
        match roll {
            0..=9 => {
                if self.readers.len() < 6 {
                    self.open_reader()?;
                }
            }
            10..=15 => self.drop_random_reader(),
            16..=20 => self.drop_random_esp(),
            21..=23 => self.verify_readers()?,
            24..=25 if self.opts.panics => self.panic_txn()?,
            _ => {
                let plan = self.plan();
                self.run_txn(&plan)?;
            }
        }
        Ok(())
    }
}
