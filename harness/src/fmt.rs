//! M2 -- independent decoder of the redb v3 file format.
//!
//! Shares no code with redb. Written from docs/design.md, with the record layouts the document
//! does not spell out (commit-slot field offsets, table-definition record, multimap collection
//! header, page lists, savepoint records, allocator serialisation) taken from reading the source.
//! XXH3-128 comes from the `xxhash-rust` crate (cross-checked against `twox-hash` on request).

use std::cmp::Ordering;
use std::collections::{BTreeMap, BTreeSet, HashMap};

pub const MAGIC: [u8; 9] = [b'r', b'e', b'd', b'b', 0x1A, 0x0A, 0xA9, 0x0D, 0x0A];
pub const HEADER_LEN: usize = 320;
const SLOT0: usize = 64;
const SLOT_LEN: usize = 128;

pub fn xxh3(data: &[u8]) -> u128 {
    xxhash_rust::xxh3::xxh3_128_with_seed(data, 0)
}

pub fn xxh3_alt(data: &[u8]) -> u128 {
    twox_hash::XxHash3_128::oneshot_with_seed(0, data)
}

fn u16le(d: &[u8], o: usize) -> Option<u16> {
    Some(u16::from_le_bytes(d.get(o..o + 2)?.try_into().ok()?))
}
fn u32le(d: &[u8], o: usize) -> Option<u32> {
    Some(u32::from_le_bytes(d.get(o..o + 4)?.try_into().ok()?))
}
fn u64le(d: &[u8], o: usize) -> Option<u64> {
    Some(u64::from_le_bytes(d.get(o..o + 8)?.try_into().ok()?))
}
fn u128le(d: &[u8], o: usize) -> Option<u128> {
    Some(u128::from_le_bytes(d.get(o..o + 16)?.try_into().ok()?))
}

#[derive(Clone, Copy, Debug, PartialEq, Eq, Hash, PartialOrd, Ord)]
pub struct PageNo {
    pub region: u32,
    pub index: u32,
    pub order: u8,
}

impl PageNo {
    pub fn from_u64(x: u64) -> PageNo {
        let order = (x >> 59) as u8;
        let index = (x & (0x000F_FFFFu64 >> order.min(20))) as u32;
        let region = ((x >> 20) & 0x000F_FFFF) as u32;
        PageNo {
            region,
            index,
            order,
        }
    }
    pub fn to_u64(self) -> u64 {
        (u64::from(self.index) & 0xF_FFFF)
            | ((u64::from(self.region) & 0xF_FFFF) << 20)
            | (u64::from(self.order & 31) << 59)
    }
    /// the order-0 page indices this page covers inside its region
    pub fn order0_span(self) -> (u32, u32) {
        let start = self.index << self.order;
        (start, start + (1u32 << self.order))
    }
}

impl std::fmt::Display for PageNo {
    fn fmt(&self, f: &mut std::fmt::Formatter<'_>) -> std::fmt::Result {
        write!(f, "r{}.{}/{}", self.region, self.index, self.order)
    }
}

#[derive(Clone, Copy, Debug, PartialEq, Eq)]
pub struct TreeHdr {
    pub page: PageNo,
    pub checksum: u128,
    pub length: u64,
}

impl TreeHdr {
    fn parse(d: &[u8]) -> Option<TreeHdr> {
        Some(TreeHdr {
            page: PageNo::from_u64(u64le(d, 0)?),
            checksum: u128le(d, 8)?,
            length: u64le(d, 24)?,
        })
    }
}

#[derive(Clone, Debug)]
pub struct Slot {
    pub version: u8,
    pub user_root: Option<TreeHdr>,
    pub system_root: Option<TreeHdr>,
    pub txn_id: u64,
    pub checksum_ok: bool,
}

#[derive(Clone, Debug)]
pub struct Header {
    pub god: u8,
    pub primary: usize,
    pub recovery_required: bool,
    pub two_phase: bool,
    pub page_size: u32,
    pub region_header_pages: u32,
    pub region_max_data_pages: u32,
    pub full_regions: u32,
    pub trailing_pages: u32,
    pub slots: [Slot; 2],
}

fn parse_slot(d: &[u8]) -> Slot {
    let version = d[0];
    let user_root = if d[1] != 0 {
        TreeHdr::parse(&d[8..40])
    } else {
        None
    };
    let system_root = if d[2] != 0 {
        TreeHdr::parse(&d[40..72])
    } else {
        None
    };
    let txn_id = u64le(d, 104).unwrap();
    let stored = u128le(d, 112).unwrap();
    Slot {
        version,
        user_root,
        system_root,
        txn_id,
        checksum_ok: stored == xxh3(&d[..112]),
    }
}

pub fn parse_header(img: &[u8]) -> Result<Header, String> {
    if img.len() < HEADER_LEN {
        return Err(format!("image of {} bytes is shorter than the header", img.len()));
    }
    if img[..9] != MAGIC {
        return Err("bad magic number".into());
    }
    let god = img[9];
    Ok(Header {
        god,
        primary: usize::from(god & 1),
        recovery_required: god & 2 != 0,
        two_phase: god & 4 != 0,
        page_size: u32le(img, 12).unwrap(),
        region_header_pages: u32le(img, 16).unwrap(),
        region_max_data_pages: u32le(img, 20).unwrap(),
        full_regions: u32le(img, 24).unwrap(),
        trailing_pages: u32le(img, 28).unwrap(),
        slots: [
            parse_slot(&img[SLOT0..SLOT0 + SLOT_LEN]),
            parse_slot(&img[SLOT0 + SLOT_LEN..SLOT0 + 2 * SLOT_LEN]),
        ],
    })
}

/// Region geometry derived from the file length (the header's counts are only trustworthy after a
/// clean shutdown).
#[derive(Clone, Copy, Debug)]
pub struct Layout {
    pub page_size: u64,
    pub header_pages: u64,
    pub max_data_pages: u64,
    pub full_regions: u64,
    pub trailing_pages: u64,
}

impl Layout {
    pub fn from_len(h: &Header, len: u64) -> Result<Layout, String> {
        let ps = u64::from(h.page_size);
        if ps < 512 || !ps.is_power_of_two() {
            return Err(format!("page size {ps} invalid"));
        }
        let hp = u64::from(h.region_header_pages);
        let mp = u64::from(h.region_max_data_pages);
        if mp == 0 {
            return Err("region max data pages is zero".into());
        }
        if len < ps * (hp + 2) {
            return Err(format!("file length {len} below the minimum layout"));
        }
        let mut remaining = len - ps;
        let full_size = (hp + mp) * ps;
        let full = remaining / full_size;
        remaining -= full * full_size;
        let trailing = if remaining >= (hp + 1) * ps {
            (remaining - hp * ps) / ps
        } else {
            0
        };
        let l = Layout {
            page_size: ps,
            header_pages: hp,
            max_data_pages: mp,
            full_regions: full,
            trailing_pages: trailing,
        };
        if l.len() != len {
            return Err(format!(
                "file length {len} does not correspond to a region layout (nearest {})",
                l.len()
            ));
        }
        Ok(l)
    }

    pub fn len(&self) -> u64 {
        let full = (self.header_pages + self.max_data_pages) * self.page_size;
        let mut l = self.page_size + self.full_regions * full;
        if self.trailing_pages > 0 {
            l += (self.header_pages + self.trailing_pages) * self.page_size;
        }
        l
    }

    pub fn num_regions(&self) -> u64 {
        self.full_regions + u64::from(self.trailing_pages > 0)
    }

    pub fn region_pages(&self, region: u64) -> u64 {
        if region < self.full_regions {
            self.max_data_pages
        } else if region == self.full_regions && self.trailing_pages > 0 {
            self.trailing_pages
        } else {
            0
        }
    }

    /// byte range of a page, or an error if it lies outside its region / the file
    pub fn range(&self, p: PageNo) -> Result<(u64, u64), String> {
        if p.order > 20 {
            return Err(format!("page {p} has order > 20"));
        }
        let region = u64::from(p.region);
        if region >= self.num_regions() {
            return Err(format!(
                "page {p} is in region {region} but the file has {} region(s)",
                self.num_regions()
            ));
        }
        let (s0, e0) = p.order0_span();
        if u64::from(e0) > self.region_pages(region) {
            return Err(format!(
                "page {p} extends past its region ({} pages)",
                self.region_pages(region)
            ));
        }
        let region_size = (self.header_pages + self.max_data_pages) * self.page_size;
        let start = self.page_size
            + region * region_size
            + self.header_pages * self.page_size
            + u64::from(s0) * self.page_size;
        let end = start + (self.page_size << p.order);
        Ok((start, end))
    }
}

// -------------------------------------------------------------------------------------------------
// key types

#[derive(Clone, Debug, PartialEq, Eq)]
pub enum KeyTy {
    Unit,
    Bool,
    Char,
    U(usize),
    I(usize),
    Bytes,
    Str,
    FixedBytes(usize),
    Opt(Box<KeyTy>),
    Array(Box<KeyTy>, usize),
    Tuple(Vec<KeyTy>),
    TxnPagination,
    SavepointId,
    AllocatorKey,
    Unknown(String),
}

impl KeyTy {
    pub fn fixed_width(&self) -> Option<usize> {
        match self {
            KeyTy::Unit => Some(0),
            KeyTy::Bool => Some(1),
            KeyTy::Char => Some(3),
            KeyTy::U(n) | KeyTy::I(n) | KeyTy::FixedBytes(n) => Some(*n),
            KeyTy::Bytes | KeyTy::Str => None,
            KeyTy::Opt(t) => t.fixed_width().map(|x| x + 1),
            KeyTy::Array(t, n) => t.fixed_width().map(|x| x * n),
            KeyTy::Tuple(ts) => {
                let mut s = 0;
                for t in ts {
                    s += t.fixed_width()?;
                }
                Some(s)
            }
            KeyTy::TxnPagination => Some(16),
            KeyTy::SavepointId => Some(8),
            KeyTy::AllocatorKey => Some(5),
            KeyTy::Unknown(_) => None,
        }
    }

    pub fn known(&self) -> bool {
        match self {
            KeyTy::Unknown(_) => false,
            KeyTy::Opt(t) | KeyTy::Array(t, _) => t.known(),
            KeyTy::Tuple(ts) => ts.iter().all(KeyTy::known),
            _ => true,
        }
    }

    /// Parse a stored type name (classification byte + name).
    pub fn parse(class: u8, name: &str) -> KeyTy {
        if class == 2 {
            return KeyTy::Unknown(name.to_string());
        }
        match parse_ty(name) {
            Some((t, rest)) if rest.is_empty() => t,
            _ => KeyTy::Unknown(name.to_string()),
        }
    }

    /// Compare two encodings (either may be a shortened separator). None if undecidable.
    pub fn compare(&self, a: &[u8], b: &[u8]) -> Option<Ordering> {
        Some(match self {
            KeyTy::Unit => Ordering::Equal,
            KeyTy::Bool => {
                if a.len() != 1 || b.len() != 1 {
                    return None;
                }
                (a[0] != 0).cmp(&(b[0] != 0))
            }
            KeyTy::Char => {
                if a.len() != 3 || b.len() != 3 {
                    return None;
                }
                let x = u32::from(a[0]) | u32::from(a[1]) << 8 | u32::from(a[2]) << 16;
                let y = u32::from(b[0]) | u32::from(b[1]) << 8 | u32::from(b[2]) << 16;
                x.cmp(&y)
            }
            KeyTy::U(n) => {
                if a.len() != *n || b.len() != *n {
                    return None;
                }
                let mut x = [0u8; 16];
                let mut y = [0u8; 16];
                x[..*n].copy_from_slice(a);
                y[..*n].copy_from_slice(b);
                u128::from_le_bytes(x).cmp(&u128::from_le_bytes(y))
            }
            KeyTy::I(n) => {
                if a.len() != *n || b.len() != *n {
                    return None;
                }
                let ext = |d: &[u8]| {
                    let fill = if d[*n - 1] & 0x80 != 0 { 0xFF } else { 0 };
                    let mut x = [fill; 16];
                    x[..*n].copy_from_slice(d);
                    i128::from_le_bytes(x)
                };
                ext(a).cmp(&ext(b))
            }
            KeyTy::Bytes | KeyTy::FixedBytes(_) => a.cmp(b),
            KeyTy::Str => {
                let x = std::str::from_utf8(a).ok()?;
                let y = std::str::from_utf8(b).ok()?;
                x.cmp(y)
            }
            KeyTy::TxnPagination => {
                if a.len() != 16 || b.len() != 16 {
                    return None;
                }
                (u64le(a, 0)?, u64le(a, 8)?).cmp(&(u64le(b, 0)?, u64le(b, 8)?))
            }
            KeyTy::SavepointId => {
                if a.len() != 8 || b.len() != 8 {
                    return None;
                }
                u64le(a, 0)?.cmp(&u64le(b, 0)?)
            }
            KeyTy::AllocatorKey => {
                if a.len() != 5 || b.len() != 5 {
                    return None;
                }
                // Deprecated(0..=2) < Region(n) (3) < RegionTracker (4) < TransactionId (5)
                let rank = |d: &[u8]| -> (u8, u32) {
                    match d[0] {
                        0..=2 => (0, 0),
                        3 => (1, u32le(d, 1).unwrap()),
                        4 => (2, 0),
                        _ => (3, 0),
                    }
                };
                rank(a).cmp(&rank(b))
            }
            KeyTy::Opt(t) => {
                let (x, y) = (*a.first()?, *b.first()?);
                if x > 1 || y > 1 {
                    return None;
                }
                match (x, y) {
                    (0, 0) => Ordering::Equal,
                    (0, _) => Ordering::Less,
                    (_, 0) => Ordering::Greater,
                    _ => t.compare(&a[1..], &b[1..])?,
                }
            }
            KeyTy::Array(t, n) => {
                let ea = split_array(t, *n, a)?;
                let eb = split_array(t, *n, b)?;
                for (x, y) in ea.iter().zip(eb.iter()) {
                    let o = t.compare(x, y)?;
                    if o != Ordering::Equal {
                        return Some(o);
                    }
                }
                Ordering::Equal
            }
            KeyTy::Tuple(ts) => {
                let ea = split_tuple(ts, a)?;
                let eb = split_tuple(ts, b)?;
                for ((t, x), y) in ts.iter().zip(ea.iter()).zip(eb.iter()) {
                    let o = t.compare(x, y)?;
                    if o != Ordering::Equal {
                        return Some(o);
                    }
                }
                Ordering::Equal
            }
            KeyTy::Unknown(_) => {
                return None;
            }
        })
    }
}

fn split_array<'d>(t: &KeyTy, n: usize, d: &'d [u8]) -> Option<Vec<&'d [u8]>> {
    let mut out = Vec::with_capacity(n);
    if let Some(w) = t.fixed_width() {
        if d.len() != w * n {
            return None;
        }
        for i in 0..n {
            out.push(&d[w * i..w * (i + 1)]);
        }
    } else {
        let mut start = 4 * n;
        for i in 0..n {
            let end = u32le(d, 4 * i)? as usize;
            out.push(d.get(start..end)?);
            start = end;
        }
    }
    Some(out)
}

fn varint(d: &[u8]) -> Option<(usize, usize)> {
    match *d.first()? {
        x @ 0..=253 => Some((x as usize, 1)),
        254 => Some((u16le(d, 1)? as usize, 3)),
        _ => Some((u32le(d, 1)? as usize, 5)),
    }
}

fn split_tuple<'d>(ts: &[KeyTy], d: &'d [u8]) -> Option<Vec<&'d [u8]>> {
    let all_fixed = ts.iter().all(|t| t.fixed_width().is_some());
    let mut lens: Vec<Option<usize>> = vec![];
    let mut off = 0usize;
    for (i, t) in ts.iter().enumerate() {
        if let Some(w) = t.fixed_width() {
            lens.push(Some(w));
        } else if all_fixed || i + 1 == ts.len() {
            lens.push(None);
        } else {
            let (l, used) = varint(d.get(off..)?)?;
            off += used;
            lens.push(Some(l));
        }
    }
    let mut out = Vec::with_capacity(ts.len());
    for (i, l) in lens.iter().enumerate() {
        let l = match l {
            Some(l) => *l,
            None => {
                // last element: the remainder
                debug_assert!(i + 1 == ts.len());
                d.len().checked_sub(off)?
            }
        };
        out.push(d.get(off..off + l)?);
        off += l;
    }
    if off != d.len() {
        return None;
    }
    Some(out)
}

fn parse_ty(s: &str) -> Option<(KeyTy, &str)> {
    const PRIMS: [(&str, fn() -> KeyTy); 17] = [
        ("u128", || KeyTy::U(16)),
        ("i128", || KeyTy::I(16)),
        ("u64", || KeyTy::U(8)),
        ("i64", || KeyTy::I(8)),
        ("u32", || KeyTy::U(4)),
        ("i32", || KeyTy::I(4)),
        ("u16", || KeyTy::U(2)),
        ("i16", || KeyTy::I(2)),
        ("u8", || KeyTy::U(1)),
        ("i8", || KeyTy::I(1)),
        ("bool", || KeyTy::Bool),
        ("char", || KeyTy::Char),
        ("&str", || KeyTy::Str),
        ("String", || KeyTy::Str),
        ("&[u8]", || KeyTy::Bytes),
        ("()", || KeyTy::Unit),
        ("redb::SavepointId", || KeyTy::SavepointId),
    ];
    if let Some(r) = s.strip_prefix("redb::TransactionIdWithPagination") {
        return Some((KeyTy::TxnPagination, r));
    }
    if let Some(r) = s.strip_prefix("redb::AllocatorStateKey") {
        return Some((KeyTy::AllocatorKey, r));
    }
    for (p, f) in PRIMS {
        if let Some(r) = s.strip_prefix(p) {
            return Some((f(), r));
        }
    }
    if let Some(r) = s.strip_prefix("Option<") {
        let (t, r) = parse_ty(r)?;
        let r = r.strip_prefix('>')?;
        return Some((KeyTy::Opt(Box::new(t)), r));
    }
    if let Some(r) = s.strip_prefix("[u8;") {
        let end = r.find(']')?;
        let n: usize = r[..end].parse().ok()?;
        return Some((KeyTy::FixedBytes(n), &r[end + 1..]));
    }
    if let Some(r) = s.strip_prefix('[') {
        let (t, r) = parse_ty(r)?;
        let r = r.strip_prefix(';')?;
        let end = r.find(']')?;
        let n: usize = r[..end].parse().ok()?;
        return Some((KeyTy::Array(Box::new(t), n), &r[end + 1..]));
    }
    if let Some(mut r) = s.strip_prefix('(') {
        let mut ts = vec![];
        loop {
            let (t, r2) = parse_ty(r)?;
            ts.push(t);
            if let Some(r3) = r2.strip_prefix(',') {
                if let Some(r4) = r3.strip_prefix(')') {
                    return Some((KeyTy::Tuple(ts), r4));
                }
                r = r3;
            } else {
                let r3 = r2.strip_prefix(')')?;
                return Some((KeyTy::Tuple(ts), r3));
            }
        }
    }
    None
}

// -------------------------------------------------------------------------------------------------
// decoded forest

#[derive(Clone, Debug, PartialEq, Eq)]
pub enum TableKind {
    Normal,
    Multimap,
}

#[derive(Clone, Debug)]
pub struct TableDef {
    pub kind: TableKind,
    pub length: u64,
    pub root: Option<TreeHdr>,
    pub fixed_key: Option<usize>,
    pub fixed_value: Option<usize>,
    pub key_align: u32,
    pub value_align: u32,
    pub key_class: u8,
    pub key_type: String,
    pub value_class: u8,
    pub value_type: String,
}

pub fn parse_table_def(d: &[u8]) -> Result<TableDef, String> {
    let bad = || "table definition record truncated".to_string();
    if d.len() < 64 {
        return Err(bad());
    }
    let kind = match d[0] {
        3 => TableKind::Normal,
        4 => TableKind::Multimap,
        x => return Err(format!("table definition has unknown table type {x}")),
    };
    let length = u64le(d, 1).ok_or_else(bad)?;
    let root = if d[9] != 0 {
        Some(TreeHdr::parse(&d[10..42]).ok_or_else(bad)?)
    } else {
        None
    };
    let fixed_key = if d[42] != 0 {
        Some(u32le(d, 43).ok_or_else(bad)? as usize)
    } else {
        None
    };
    let fixed_value = if d[47] != 0 {
        Some(u32le(d, 48).ok_or_else(bad)? as usize)
    } else {
        None
    };
    let key_align = u32le(d, 52).ok_or_else(bad)?;
    let value_align = u32le(d, 56).ok_or_else(bad)?;
    let ktl = u32le(d, 60).ok_or_else(bad)? as usize;
    let kt = d.get(64..64 + ktl).ok_or_else(bad)?;
    let vt = d.get(64 + ktl..).ok_or_else(bad)?;
    if kt.is_empty() || vt.is_empty() {
        return Err("table definition has an empty type name".into());
    }
    let key_type = std::str::from_utf8(&kt[1..])
        .map_err(|_| "key type name not utf-8".to_string())?
        .to_string();
    let value_type = std::str::from_utf8(&vt[1..])
        .map_err(|_| "value type name not utf-8".to_string())?
        .to_string();
    Ok(TableDef {
        kind,
        length,
        root,
        fixed_key,
        fixed_value,
        key_align,
        value_align,
        key_class: kt[0],
        key_type,
        value_class: vt[0],
        value_type,
    })
}

#[derive(Clone, Debug, Default)]
pub struct TreeStats {
    pub leaves: u64,
    pub branches: u64,
    pub depth: u32,
    pub entries: u64,
    pub multi_page_leaves: u64,
    pub shortened_separators: u64,
}

#[derive(Clone, Debug)]
pub enum Entries {
    Normal(Vec<(Vec<u8>, Vec<u8>)>),
    Multi(Vec<(Vec<u8>, Vec<Vec<u8>>)>),
}

#[derive(Clone, Debug)]
pub struct TableDump {
    pub def: TableDef,
    pub entries: Entries,
    pub stats: TreeStats,
    pub order_checked: bool,
    pub inline_collections: u64,
    pub subtree_collections: u64,
    pub max_subtree_depth: u32,
}

#[derive(Clone, Debug)]
pub struct SavepointRec {
    pub id: u64,
    pub txn: u64,
    pub root: Option<TreeHdr>,
}

#[derive(Clone, Debug, Default)]
pub struct AllocStateRec {
    pub regions: Vec<Vec<u8>>,
    pub tracker: Option<Vec<u8>>,
    pub txn: Option<u64>,
}

#[derive(Clone, Debug)]
pub struct Forest {
    pub txn_id: u64,
    pub user: BTreeMap<String, TableDump>,
    pub system: BTreeMap<String, TableDump>,
    pub user_catalog_stats: TreeStats,
    pub system_catalog_stats: TreeStats,
    /// pages reachable from the data root (catalog tree, tables, subtrees)
    pub data_pages: BTreeSet<PageNo>,
    /// pages reachable from the system root
    pub system_pages: BTreeSet<PageNo>,
    pub data_freed: Vec<(u64, u64, Vec<PageNo>)>,
    pub system_freed: Vec<(u64, u64, Vec<PageNo>)>,
    pub data_allocated: Vec<(u64, u64, Vec<PageNo>)>,
    pub savepoints: Vec<SavepointRec>,
    pub next_savepoint: Option<u64>,
    pub alloc_state: Option<AllocStateRec>,
    pub order_unchecked_tables: Vec<String>,
}

/// Where pages come from: the bytes of a storage image, or a live database (hook H4)
pub trait PageSource {
    fn read_page(&self, p: PageNo) -> Result<Vec<u8>, String>;
}

#[derive(Clone, Copy)]
pub enum Src<'a> {
    Img(&'a [u8]),
    Dyn(&'a dyn PageSource),
}

pub struct Decoder<'a> {
    pub src: Src<'a>,
    pub header: Header,
    pub layout: Layout,
    /// order-0 page start offset -> owner description, for the no-page-twice check
    visited: HashMap<u64, String>,
    pub cross_check_hash: bool,
    pub hash_cross_checks: u64,
    /// when false the no-page-referenced-twice check is skipped (walking savepoint roots, which
    /// legitimately share pages with the current tree)
    pub check_unique: bool,
}

struct NodeOut {
    count: u64,
    depth: u32,
}

type LeafFn<'f> = dyn FnMut(&[u8], &[u8]) -> Result<(), String> + 'f;

impl<'a> Decoder<'a> {
    pub fn new(img: &'a [u8]) -> Result<Self, String> {
        let header = parse_header(img)?;
        let layout = Layout::from_len(&header, img.len() as u64)?;
        Ok(Decoder {
            src: Src::Img(img),
            header,
            layout,
            visited: HashMap::new(),
            cross_check_hash: false,
            hash_cross_checks: 0,
            check_unique: true,
        })
    }

    /// Decoder over an arbitrary page source with an externally supplied header and layout
    pub fn with_source(src: &'a dyn PageSource, header: Header, layout: Layout) -> Self {
        Decoder {
            src: Src::Dyn(src),
            header,
            layout,
            visited: HashMap::new(),
            cross_check_hash: false,
            hash_cross_checks: 0,
            check_unique: true,
        }
    }

    fn hash(&mut self, d: &[u8]) -> Result<u128, String> {
        let h = xxh3(d);
        if self.cross_check_hash {
            self.hash_cross_checks += 1;
            if xxh3_alt(d) != h {
                return Err("machinery: the two XXH3 implementations disagree".into());
            }
        }
        Ok(h)
    }

    pub fn page(&self, p: PageNo) -> Result<std::borrow::Cow<'a, [u8]>, String> {
        let (s, e) = self.layout.range(p)?;
        match self.src {
            Src::Img(img) => img
                .get(s as usize..e as usize)
                .map(std::borrow::Cow::Borrowed)
                .ok_or_else(|| format!("page {p} [{s},{e}) lies outside the file")),
            Src::Dyn(d) => {
                let v = d.read_page(p)?;
                if v.len() as u64 != e - s {
                    return Err(format!("page {p}: source returned {} bytes, expected {}", v.len(), e - s));
                }
                Ok(std::borrow::Cow::Owned(v))
            }
        }
    }

    fn claim(&mut self, p: PageNo, owner: &str) -> Result<(), String> {
        let (s, e) = self.layout.range(p)?;
        if !self.check_unique {
            return Ok(());
        }
        let mut off = s;
        while off < e {
            if let Some(prev) = self.visited.get(&off) {
                return Err(format!(
                    "page {p} referenced twice: by {owner} and by {prev}"
                ));
            }
            self.visited.insert(off, owner.to_string());
            off += self.layout.page_size;
        }
        Ok(())
    }

    /// Walk one B-tree, checking every structural rule, and feed leaf entries to `leaf`.
    #[allow(clippy::too_many_arguments)]
    pub fn walk_tree(
        &mut self,
        root: TreeHdr,
        fk: Option<usize>,
        fv: Option<usize>,
        kty: &KeyTy,
        owner: &str,
        pages: &mut BTreeSet<PageNo>,
        stats: &mut TreeStats,
        leaf: &mut LeafFn<'_>,
    ) -> Result<(), String> {
        let out = self.node(
            root.page,
            root.checksum,
            fk,
            fv,
            kty,
            owner,
            None,
            None,
            0,
            pages,
            stats,
            leaf,
        )?;
        stats.depth = out.depth;
        stats.entries = out.count;
        if out.count != root.length {
            return Err(format!(
                "{owner}: stored tree length {} but {} entries present",
                root.length, out.count
            ));
        }
        Ok(())
    }

    #[allow(clippy::too_many_arguments)]
    fn node(
        &mut self,
        p: PageNo,
        expected: u128,
        fk: Option<usize>,
        fv: Option<usize>,
        kty: &KeyTy,
        owner: &str,
        lower: Option<&[u8]>,
        upper: Option<&[u8]>,
        level: u32,
        pages: &mut BTreeSet<PageNo>,
        stats: &mut TreeStats,
        leaf: &mut LeafFn<'_>,
    ) -> Result<NodeOut, String> {
        if level > 64 {
            return Err(format!("{owner}: tree deeper than 64 levels (cycle?)"));
        }
        self.claim(p, owner)?;
        pages.insert(p);
        let mem_cow = self.page(p)?;
        let mem: &[u8] = &mem_cow;
        match mem[0] {
            1 => {
                let n = u16le(mem, 2).unwrap() as usize;
                if n == 0 {
                    return Err(format!("{owner}: leaf {p} has zero entries"));
                }
                let lf = parse_leaf(mem, fk, fv).map_err(|e| format!("{owner}: leaf {p}: {e}"))?;
                let sum = self.hash(&mem[..lf.end])?;
                if sum != expected {
                    return Err(format!(
                        "{owner}: leaf {p} checksum mismatch (stored {expected:x}, computed {sum:x})"
                    ));
                }
                stats.leaves += 1;
                if p.order > 0 {
                    stats.multi_page_leaves += 1;
                }
                let mut prev: Option<&[u8]> = None;
                for i in 0..n {
                    let (k, v) = lf.entry(mem, i);
                    if let Some(pk) = prev {
                        if let Some(o) = kty.compare(pk, k) {
                            if o != Ordering::Less {
                                return Err(format!(
                                    "{owner}: leaf {p} keys not strictly increasing at entry {i}"
                                ));
                            }
                        }
                    }
                    if let Some(lb) = lower {
                        if let Some(o) = kty.compare(lb, k) {
                            if o != Ordering::Less {
                                return Err(format!(
                                    "{owner}: leaf {p} entry {i} sorts at or below the routing key on its left"
                                ));
                            }
                        }
                    }
                    if let Some(ub) = upper {
                        if let Some(o) = kty.compare(k, ub) {
                            if o == Ordering::Greater {
                                return Err(format!(
                                    "{owner}: leaf {p} entry {i} sorts above the routing key on its right"
                                ));
                            }
                        }
                    }
                    prev = Some(k);
                    leaf(k, v)?;
                }
                Ok(NodeOut {
                    count: n as u64,
                    depth: level + 1,
                })
            }
            2 => {
                let nk = u16le(mem, 2).unwrap() as usize;
                if nk == 0 {
                    return Err(format!("{owner}: branch {p} has zero keys"));
                }
                let br =
                    parse_branch(mem, fk).map_err(|e| format!("{owner}: branch {p}: {e}"))?;
                let sum = self.hash(&mem[..br.end])?;
                if sum != expected {
                    return Err(format!(
                        "{owner}: branch {p} checksum mismatch (stored {expected:x}, computed {sum:x})"
                    ));
                }
                stats.branches += 1;
                // separators strictly increasing and within the parent's bounds
                for i in 0..nk {
                    let k = br.key(mem, i);
                    if i > 0 {
                        if let Some(o) = kty.compare(br.key(mem, i - 1), k) {
                            if o != Ordering::Less {
                                return Err(format!(
                                    "{owner}: branch {p} routing keys not strictly increasing at {i}"
                                ));
                            }
                        }
                    }
                }
                let mut total = 0u64;
                let mut depth = None;
                for c in 0..=nk {
                    let child = PageNo::from_u64(u64le(mem, 8 + 16 * (nk + 1) + 8 * c).unwrap());
                    let csum = u128le(mem, 8 + 16 * c).unwrap();
                    let lb = if c == 0 { lower } else { Some(br.key(mem, c - 1)) };
                    let ub = if c == nk { upper } else { Some(br.key(mem, c)) };
                    let out = self.node(
                        child,
                        csum,
                        fk,
                        fv,
                        kty,
                        owner,
                        lb,
                        ub,
                        level + 1,
                        pages,
                        stats,
                        leaf,
                    )?;
                    total += out.count;
                    match depth {
                        None => depth = Some(out.depth),
                        Some(d) if d != out.depth => {
                            return Err(format!(
                                "{owner}: branch {p} has leaves at depths {d} and {}",
                                out.depth
                            ));
                        }
                        _ => {}
                    }
                }
                Ok(NodeOut {
                    count: total,
                    depth: depth.unwrap(),
                })
            }
            t => Err(format!("{owner}: page {p} has type byte {t}")),
        }
    }

    /// Decode the catalog tree at `root` and every table in it.
    fn walk_catalog(
        &mut self,
        root: Option<TreeHdr>,
        what: &str,
        pages: &mut BTreeSet<PageNo>,
        catalog_stats: &mut TreeStats,
        unchecked: &mut Vec<String>,
    ) -> Result<BTreeMap<String, TableDump>, String> {
        let mut out = BTreeMap::new();
        let Some(root) = root else {
            return Ok(out);
        };
        let mut defs: Vec<(String, TableDef)> = vec![];
        {
            let mut f = |k: &[u8], v: &[u8]| -> Result<(), String> {
                let name = std::str::from_utf8(k)
                    .map_err(|_| format!("{what} catalog: table name not utf-8"))?
                    .to_string();
                let def = parse_table_def(v).map_err(|e| format!("{what} table '{name}': {e}"))?;
                defs.push((name, def));
                Ok(())
            };
            self.walk_tree(
                root,
                None,
                None,
                &KeyTy::Str,
                &format!("{what} catalog"),
                pages,
                catalog_stats,
                &mut f,
            )?;
        }
        for (name, def) in defs {
            let owner = format!("{what} table '{name}'");
            let kty = KeyTy::parse(def.key_class, &def.key_type);
            if def.fixed_key != kty.fixed_width() && kty.known() {
                return Err(format!(
                    "{owner}: stored fixed key width {:?} disagrees with key type {}",
                    def.fixed_key, def.key_type
                ));
            }
            if def.key_align != 1 || def.value_align != 1 {
                return Err(format!("{owner}: alignment fields are not 1"));
            }
            let mut order_checked = kty.known();
            let mut stats = TreeStats::default();
            let mut inline_c = 0u64;
            let mut subtree_c = 0u64;
            let mut max_sub_depth = 0u32;
            let entries = match def.kind {
                TableKind::Normal => {
                    let mut es = vec![];
                    if let Some(r) = def.root {
                        let mut f = |k: &[u8], v: &[u8]| -> Result<(), String> {
                            es.push((k.to_vec(), v.to_vec()));
                            Ok(())
                        };
                        self.walk_tree(
                            r,
                            def.fixed_key,
                            def.fixed_value,
                            &kty,
                            &owner,
                            pages,
                            &mut stats,
                            &mut f,
                        )?;
                    }
                    if es.len() as u64 != def.length {
                        return Err(format!(
                            "{owner}: stored table length {} but {} entries present",
                            def.length,
                            es.len()
                        ));
                    }
                    Entries::Normal(es)
                }
                TableKind::Multimap => {
                    let vty = KeyTy::parse(def.value_class, &def.value_type);
                    if !vty.known() {
                        order_checked = false;
                    }
                    let mut raw: Vec<(Vec<u8>, Vec<u8>)> = vec![];
                    if let Some(r) = def.root {
                        let mut f = |k: &[u8], v: &[u8]| -> Result<(), String> {
                            raw.push((k.to_vec(), v.to_vec()));
                            Ok(())
                        };
                        self.walk_tree(r, def.fixed_key, None, &kty, &owner, pages, &mut stats, &mut f)?;
                    }
                    let mut es = vec![];
                    let mut pairs = 0u64;
                    for (k, coll) in raw {
                        if coll.is_empty() {
                            return Err(format!("{owner}: empty collection record"));
                        }
                        let mut vals: Vec<Vec<u8>> = vec![];
                        match coll[0] {
                            1 => {
                                inline_c += 1;
                                let lmem = &coll[1..];
                                if lmem.len() < 4 || lmem[0] != 1 {
                                    return Err(format!("{owner}: inline collection is not a leaf image"));
                                }
                                let n = u16le(lmem, 2).unwrap() as usize;
                                if n == 0 {
                                    return Err(format!("{owner}: inline collection with zero values"));
                                }
                                let lf = parse_leaf(lmem, def.fixed_value, Some(0))
                                    .map_err(|e| format!("{owner}: inline collection: {e}"))?;
                                if lf.end != lmem.len() {
                                    return Err(format!(
                                        "{owner}: inline collection has {} trailing bytes",
                                        lmem.len() - lf.end
                                    ));
                                }
                                for i in 0..n {
                                    let (vk, _) = lf.entry(lmem, i);
                                    if let Some(last) = vals.last() {
                                        if let Some(o) = vty.compare(last, vk) {
                                            if o != Ordering::Less {
                                                return Err(format!(
                                                    "{owner}: inline values not strictly increasing"
                                                ));
                                            }
                                        }
                                    }
                                    vals.push(vk.to_vec());
                                }
                            }
                            3 => {
                                subtree_c += 1;
                                let hdr = TreeHdr::parse(coll.get(1..33).ok_or_else(|| {
                                    format!("{owner}: subtree collection record truncated")
                                })?)
                                .unwrap();
                                if coll.len() != 33 {
                                    return Err(format!(
                                        "{owner}: subtree collection record has length {}",
                                        coll.len()
                                    ));
                                }
                                let mut st = TreeStats::default();
                                let mut f = |vk: &[u8], unit: &[u8]| -> Result<(), String> {
                                    if !unit.is_empty() {
                                        return Err("subtree value is not ()".to_string());
                                    }
                                    vals.push(vk.to_vec());
                                    Ok(())
                                };
                                self.walk_tree(
                                    hdr,
                                    def.fixed_value,
                                    Some(0),
                                    &vty,
                                    &format!("{owner} subtree"),
                                    pages,
                                    &mut st,
                                    &mut f,
                                )?;
                                max_sub_depth = max_sub_depth.max(st.depth);
                                stats.leaves += st.leaves;
                                stats.branches += st.branches;
                                stats.multi_page_leaves += st.multi_page_leaves;
                            }
                            t => {
                                return Err(format!("{owner}: collection type byte {t}"));
                            }
                        }
                        pairs += vals.len() as u64;
                        es.push((k, vals));
                    }
                    if pairs != def.length {
                        return Err(format!(
                            "{owner}: stored multimap length {} but {} pairs present",
                            def.length, pairs
                        ));
                    }
                    Entries::Multi(es)
                }
            };
            if !order_checked {
                unchecked.push(name.clone());
            }
            out.insert(
                name,
                TableDump {
                    def,
                    entries,
                    stats,
                    order_checked,
                    inline_collections: inline_c,
                    subtree_collections: subtree_c,
                    max_subtree_depth: max_sub_depth,
                },
            );
        }
        Ok(out)
    }

    pub fn walk_catalog_pub(
        &mut self,
        root: Option<TreeHdr>,
        what: &str,
        pages: &mut BTreeSet<PageNo>,
        catalog_stats: &mut TreeStats,
        unchecked: &mut Vec<String>,
    ) -> Result<BTreeMap<String, TableDump>, String> {
        self.walk_catalog(root, what, pages, catalog_stats, unchecked)
    }

    /// Decode and check the whole forest hanging off commit slot `slot`.
    pub fn forest(&mut self, slot: usize) -> Result<Forest, String> {
        let s = self.header.slots[slot].clone();
        if !s.checksum_ok {
            return Err(format!("commit slot {slot} checksum mismatch"));
        }
        if s.version != 3 {
            return Err(format!("commit slot {slot} has file format version {}", s.version));
        }
        let mut data_pages = BTreeSet::new();
        let mut system_pages = BTreeSet::new();
        let mut ucs = TreeStats::default();
        let mut scs = TreeStats::default();
        let mut unchecked = vec![];
        let user = self.walk_catalog(s.user_root, "user", &mut data_pages, &mut ucs, &mut unchecked)?;
        let system =
            self.walk_catalog(s.system_root, "system", &mut system_pages, &mut scs, &mut unchecked)?;
        if let Some(r) = s.user_root {
            if r.length != user.len() as u64 {
                return Err(format!(
                    "slot {slot}: user root length {} but {} tables",
                    r.length,
                    user.len()
                ));
            }
        }
        if let Some(r) = s.system_root {
            if r.length != system.len() as u64 {
                return Err(format!(
                    "slot {slot}: system root length {} but {} tables",
                    r.length,
                    system.len()
                ));
            }
        }
        let page_list = |v: &[u8]| -> Result<Vec<PageNo>, String> {
            let n = u16le(v, 0).ok_or("page list truncated")? as usize;
            let mut out = Vec::with_capacity(n);
            for i in 0..n {
                out.push(PageNo::from_u64(
                    u64le(v, 2 + 8 * i).ok_or("page list truncated")?,
                ));
            }
            Ok(out)
        };
        let lists = |t: Option<&TableDump>| -> Result<Vec<(u64, u64, Vec<PageNo>)>, String> {
            let mut out = vec![];
            if let Some(t) = t {
                if let Entries::Normal(es) = &t.entries {
                    for (k, v) in es {
                        out.push((u64le(k, 0).unwrap(), u64le(k, 8).unwrap(), page_list(v)?));
                    }
                }
            }
            Ok(out)
        };
        let data_freed = lists(system.get("data_pages_unreachable"))?;
        let system_freed = lists(system.get("system_pages_unreachable"))?;
        let data_allocated = lists(system.get("data_pages_allocated"))?;
        let mut savepoints = vec![];
        if let Some(t) = system.get("persistent_savepoints") {
            if let Entries::Normal(es) = &t.entries {
                for (k, v) in es {
                    if v.len() != 50 {
                        return Err(format!("savepoint record of length {}", v.len()));
                    }
                    let id = u64le(k, 0).unwrap();
                    if v[0] != 3 || u64le(v, 1).unwrap() != id || v[17] > 1 {
                        return Err(format!("savepoint record {id} malformed"));
                    }
                    savepoints.push(SavepointRec {
                        id,
                        txn: u64le(v, 9).unwrap(),
                        root: if v[17] == 1 {
                            TreeHdr::parse(&v[18..50])
                        } else {
                            None
                        },
                    });
                }
            }
        }
        let mut next_savepoint = None;
        if let Some(t) = system.get("next_savepoint_id") {
            if let Entries::Normal(es) = &t.entries {
                if let Some((_, v)) = es.first() {
                    next_savepoint = u64le(v, 0);
                }
            }
        }
        let mut alloc_state = None;
        if let Some(t) = system.get("allocator_state") {
            if let Entries::Normal(es) = &t.entries {
                let mut a = AllocStateRec::default();
                for (k, v) in es {
                    match k[0] {
                        3 => a.regions.push(v.clone()),
                        4 => a.tracker = Some(v.clone()),
                        5 => a.txn = u64le(v, 0),
                        _ => {}
                    }
                }
                alloc_state = Some(a);
            }
        }
        Ok(Forest {
            txn_id: s.txn_id,
            user,
            system,
            user_catalog_stats: ucs,
            system_catalog_stats: scs,
            data_pages,
            system_pages,
            data_freed,
            system_freed,
            data_allocated,
            savepoints,
            next_savepoint,
            alloc_state,
            order_unchecked_tables: unchecked,
        })
    }

    /// Walk the data tree of a savepoint root (shares pages with other roots by design).
    pub fn savepoint_tree(
        &mut self,
        root: Option<TreeHdr>,
    ) -> Result<(BTreeMap<String, TableDump>, BTreeSet<PageNo>), String> {
        let prev = self.check_unique;
        self.check_unique = false;
        let mut pages = BTreeSet::new();
        let mut st = TreeStats::default();
        let mut un = vec![];
        let r = self.walk_catalog(root, "savepoint", &mut pages, &mut st, &mut un);
        self.check_unique = prev;
        Ok((r?, pages))
    }
}

pub struct LeafLayout {
    n: usize,
    fk: Option<usize>,
    fv: Option<usize>,
    keys_start: usize,
    /// end of used bytes
    pub end: usize,
    key_ends: Vec<usize>,
    val_ends: Vec<usize>,
}

impl LeafLayout {
    pub fn entry<'m>(&self, mem: &'m [u8], i: usize) -> (&'m [u8], &'m [u8]) {
        let ks = if i == 0 {
            self.keys_start
        } else {
            self.key_ends[i - 1]
        };
        let ke = self.key_ends[i];
        let vs = if i == 0 {
            self.key_ends[self.n - 1]
        } else {
            self.val_ends[i - 1]
        };
        let ve = self.val_ends[i];
        (&mem[ks..ke], &mem[vs..ve])
    }
    pub fn n(&self) -> usize {
        self.n
    }
    pub fn fixed(&self) -> (Option<usize>, Option<usize>) {
        (self.fk, self.fv)
    }
}

pub fn parse_leaf(mem: &[u8], fk: Option<usize>, fv: Option<usize>) -> Result<LeafLayout, String> {
    let n = u16le(mem, 2).ok_or("leaf shorter than its header")? as usize;
    let mut off = 4;
    let mut key_ends = Vec::with_capacity(n);
    let mut val_ends = Vec::with_capacity(n);
    let key_tbl = off;
    if fk.is_none() {
        off += 4 * n;
    }
    let val_tbl = off;
    if fv.is_none() {
        off += 4 * n;
    }
    let keys_start = off;
    if keys_start > mem.len() {
        return Err("offset tables extend beyond the page".into());
    }
    let mut prev = keys_start;
    for i in 0..n {
        let e = match fk {
            Some(w) => keys_start + w * (i + 1),
            None => u32le(mem, key_tbl + 4 * i).ok_or("key offset table truncated")? as usize,
        };
        if e < prev || e > mem.len() {
            return Err(format!("key end offset {e} of entry {i} not monotone / outside page"));
        }
        prev = e;
        key_ends.push(e);
    }
    for i in 0..n {
        let e = match fv {
            Some(w) => key_ends[n - 1] + w * (i + 1),
            None => u32le(mem, val_tbl + 4 * i).ok_or("value offset table truncated")? as usize,
        };
        if e < prev || e > mem.len() {
            return Err(format!("value end offset {e} of entry {i} not monotone / outside page"));
        }
        prev = e;
        val_ends.push(e);
    }
    Ok(LeafLayout {
        n,
        fk,
        fv,
        keys_start,
        end: prev,
        key_ends,
        val_ends,
    })
}

pub struct BranchLayout {
    keys_start: usize,
    key_ends: Vec<usize>,
    pub end: usize,
}

impl BranchLayout {
    pub fn key<'m>(&self, mem: &'m [u8], i: usize) -> &'m [u8] {
        let s = if i == 0 {
            self.keys_start
        } else {
            self.key_ends[i - 1]
        };
        &mem[s..self.key_ends[i]]
    }
}

pub fn parse_branch(mem: &[u8], fk: Option<usize>) -> Result<BranchLayout, String> {
    let nk = u16le(mem, 2).ok_or("branch shorter than its header")? as usize;
    let tbl = 8 + 24 * (nk + 1);
    let keys_start = if fk.is_none() { tbl + 4 * nk } else { tbl };
    if keys_start > mem.len() {
        return Err("child tables extend beyond the page".into());
    }
    let mut key_ends = Vec::with_capacity(nk);
    let mut prev = keys_start;
    for i in 0..nk {
        let e = match fk {
            Some(w) => keys_start + w * (i + 1),
            None => u32le(mem, tbl + 4 * i).ok_or("key offset table truncated")? as usize,
        };
        if e < prev || e > mem.len() {
            return Err(format!("routing key end offset {e} of key {i} not monotone / outside page"));
        }
        prev = e;
        key_ends.push(e);
    }
    Ok(BranchLayout {
        keys_start,
        key_ends,
        end: prev,
    })
}

// -------------------------------------------------------------------------------------------------
// allocator serialisation

/// Leaf layer of a serialized BtreeBitmap: (len, words)
fn bitmap_leaf(d: &[u8]) -> Option<(u32, Vec<u64>)> {
    let height = u32le(d, 0)? as usize;
    if height == 0 {
        return None;
    }
    let mut start = 4 + 4 * height;
    let mut end = start;
    for h in 0..height {
        end = u32le(d, 4 + 4 * h)? as usize;
        if h + 1 < height {
            start = end;
        }
    }
    let layer = d.get(start..end)?;
    let len = u32le(layer, 0)?;
    let mut words = vec![];
    let mut o = 4;
    while o + 8 <= layer.len() {
        words.push(u64le(layer, o)?);
        o += 8;
    }
    Some((len, words))
}

#[derive(Clone, Debug)]
pub struct BuddyImage {
    pub max_order: u8,
    pub num_pages: u32,
    /// per order: (len, bit words); bit set = NOT free at this order
    pub orders: Vec<(u32, Vec<u64>)>,
}

impl BuddyImage {
    pub fn parse(d: &[u8]) -> Option<BuddyImage> {
        let max_order = *d.first()?;
        let num_pages = u32le(d, 4)?;
        let mut orders = vec![];
        let mut start = 8 + 4 * (usize::from(max_order) + 1);
        for o in 0..=usize::from(max_order) {
            let end = u32le(d, 8 + 4 * o)? as usize;
            orders.push(bitmap_leaf(d.get(start..end)?)?);
            start = end;
        }
        Some(BuddyImage {
            max_order,
            num_pages,
            orders,
        })
    }

    pub fn is_free_at(&self, order: usize, idx: u32) -> bool {
        let (len, words) = &self.orders[order];
        if idx >= *len {
            return false;
        }
        let w = words.get((idx / 64) as usize).copied().unwrap_or(u64::MAX);
        w & (1u64 << (idx % 64)) == 0
    }

    /// the order-0 pages that are allocated (not covered by any free block)
    pub fn allocated_order0(&self) -> BTreeSet<u32> {
        let mut out = BTreeSet::new();
        for i in 0..self.num_pages {
            let mut free = false;
            let mut idx = i;
            for o in 0..=usize::from(self.max_order) {
                if self.is_free_at(o, idx) {
                    free = true;
                    break;
                }
                idx /= 2;
            }
            if !free {
                out.insert(i);
            }
        }
        out
    }

    /// free blocks as (order, index)
    pub fn free_blocks(&self) -> Vec<(u8, u32)> {
        let mut out = vec![];
        for o in 0..=usize::from(self.max_order) {
            let (len, _) = &self.orders[o];
            for i in 0..*len {
                if self.is_free_at(o, i) {
                    out.push((o as u8, i));
                }
            }
        }
        out
    }
}

/// Byte ranges of every page reachable (by tree pointers) from the durable primary slot, the system
/// tree and the persistent savepoints' roots. Used by M1's copy-on-write assertion. None if the
/// image does not currently hold a decodable committed state.
pub fn protected_ranges(img: &[u8]) -> Option<Vec<(u64, u64)>> {
    let mut d = Decoder::new(img).ok()?;
    d.check_unique = false;
    let slot = d.header.primary;
    let f = d.forest(slot).ok()?;
    let mut pages: BTreeSet<PageNo> = BTreeSet::new();
    pages.extend(f.data_pages.iter().copied());
    pages.extend(f.system_pages.iter().copied());
    for sp in &f.savepoints {
        let (_, p) = d.savepoint_tree(sp.root).ok()?;
        pages.extend(p);
    }
    let mut out = vec![];
    for p in pages {
        out.push(d.layout.range(p).ok()?);
    }
    out.sort_unstable();
    // merge overlapping (shared pages appear once thanks to the set, but be safe)
    let mut merged: Vec<(u64, u64)> = vec![];
    for r in out {
        if let Some(last) = merged.last_mut() {
            if r.0 < last.1 {
                last.1 = last.1.max(r.1);
                continue;
            }
        }
        merged.push(r);
    }
    Some(merged)
}

/// Check a full committed image: the primary slot's forest (and the secondary's when its checksum
/// verifies and `also_secondary`), returning the primary's decoded forest.
pub fn check_image(img: &[u8], cross_hash: bool) -> Result<(Forest, Decoder<'_>), String> {
    let mut d = Decoder::new(img)?;
    d.cross_check_hash = cross_hash;
    let slot = d.header.primary;
    let f = d.forest(slot)?;
    // every savepoint root must itself be a well-formed forest
    for sp in f.savepoints.clone() {
        d.savepoint_tree(sp.root)
            .map_err(|e| format!("persistent savepoint {}: {e}", sp.id))?;
    }
    Ok((f, d))
}


/// Sync hook for M1: judge the durable image at every completed sync (C10) and compute the
/// copy-on-write protected set (C06/C20).
/// when set, every sync hook cross-checks XXH3 between the two independent implementations
pub static CROSS_HASH: std::sync::atomic::AtomicBool = std::sync::atomic::AtomicBool::new(false);

pub fn sync_hook(cross_hash: bool) -> crate::backend::SyncHook {
    let cross_hash = cross_hash || CROSS_HASH.load(std::sync::atomic::Ordering::Relaxed);
    std::sync::Arc::new(move |img: &[u8]| {
        let mut v = crate::backend::SyncVerdict::default();
        if img.len() < HEADER_LEN || img[..9] != MAGIC {
            // database creation in progress: no committed image yet
            return v;
        }
        match check_image(img, cross_hash) {
            Ok((f, d)) => {
                let mut pages: BTreeSet<PageNo> = BTreeSet::new();
                pages.extend(f.data_pages.iter().copied());
                pages.extend(f.system_pages.iter().copied());
                let mut max_depth = f.user_catalog_stats.depth;
                let mut leaves = f.user_catalog_stats.leaves + f.system_catalog_stats.leaves;
                let mut branches = f.user_catalog_stats.branches + f.system_catalog_stats.branches;
                let mut multi = 0;
                let mut inline_c = 0;
                let mut subtree_c = 0;
                let mut max_sub = 0;
                for t in f.user.values().chain(f.system.values()) {
                    max_depth = max_depth.max(t.stats.depth);
                    leaves += t.stats.leaves;
                    branches += t.stats.branches;
                    multi += t.stats.multi_page_leaves;
                    inline_c += t.inline_collections;
                    subtree_c += t.subtree_collections;
                    max_sub = max_sub.max(t.max_subtree_depth);
                }
                let mut user_depth = 0;
                let mut user_multi = 0;
                let mut user_branches = 0;
                for t in f.user.values() {
                    user_depth = user_depth.max(t.stats.depth);
                    user_multi += t.stats.multi_page_leaves;
                    user_branches += t.stats.branches;
                }
                let mut d2 = d;
                for sp in &f.savepoints {
                    if let Ok((_, p)) = d2.savepoint_tree(sp.root) {
                        pages.extend(p);
                    }
                }
                let mut ranges = vec![];
                for p in &pages {
                    if let Ok(r) = d2.layout.range(*p) {
                        ranges.push(r);
                    }
                }
                ranges.sort_unstable();
                let mut merged: Vec<(u64, u64)> = vec![];
                for r in ranges {
                    if let Some(last) = merged.last_mut() {
                        if r.0 < last.1 {
                            last.1 = last.1.max(r.1);
                            continue;
                        }
                    }
                    merged.push(r);
                }
                v.protected = Some(merged);
                v.obs = vec![
                    ("images_decoded".into(), 1),
                    ("max.tree_depth".into(), u64::from(max_depth)),
                    ("max.user_tree_depth".into(), u64::from(user_depth)),
                    ("user_multi_page_leaves".into(), user_multi),
                    ("user_branch_pages".into(), user_branches),
                    ("max.subtree_depth".into(), u64::from(max_sub)),
                    ("leaf_pages_walked".into(), leaves),
                    ("branch_pages_walked".into(), branches),
                    ("multi_page_leaves".into(), multi),
                    ("inline_collections".into(), inline_c),
                    ("subtree_collections".into(), subtree_c),
                    ("max.tables".into(), (f.user.len() + f.system.len()) as u64),
                    ("savepoint_roots_walked".into(), f.savepoints.len() as u64),
                    ("order_unchecked_tables".into(), f.order_unchecked_tables.len() as u64),
                    ("hash_cross_checks".into(), d2.hash_cross_checks),
                    (
                        "pending_free_records".into(),
                        (f.data_freed.len() + f.system_freed.len()) as u64,
                    ),
                    ("allocated_page_records".into(), f.data_allocated.len() as u64),
                    ("allocator_state_tables".into(), u64::from(f.alloc_state.is_some())),
                ];
            }
            Err(e) => {
                v.error = Some(e);
            }
        }
        v
    })
}
