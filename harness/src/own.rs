//! M3 -- ownership accountant. At a quiescent point it compares the allocator's bitmaps (hook H3)
//! with reachability computed independently over the pages a transaction would see (hook H4).

use crate::fmt::*;
use redb::Database;
use redb::verif::{Root, Snapshot};
use std::collections::{BTreeMap, BTreeSet, HashMap};

pub struct DbPages<'d>(pub &'d Database);

impl PageSource for DbPages<'_> {
    fn read_page(&self, p: PageNo) -> Result<Vec<u8>, String> {
        self.0
            .verif_read_page(p.to_u64())
            .map_err(|e| format!("reading page {p} through the database failed: {e}"))
    }
}

pub fn root_hdr(r: &Root) -> Option<TreeHdr> {
    r.map(|(p, c, l)| TreeHdr {
        page: PageNo::from_u64(p),
        checksum: c,
        length: l,
    })
}

#[derive(Clone, Debug, Default)]
pub struct Acct {
    pub allocated: u64,
    pub data_pages: u64,
    pub system_pages: u64,
    pub pending_free: u64,
    pub pins_walked: u64,
    pub regions: u64,
    pub unpersisted_pages: u64,
    pub savepoint_roots: u64,
    pub data_allocated_records: u64,
}

fn expand(p: PageNo) -> impl Iterator<Item = (u32, u32)> {
    let (s, e) = p.order0_span();
    (s..e).map(move |i| (p.region, i))
}

/// Allocated order-0 pages per the allocator bitmaps of the snapshot
pub fn allocated_set(snap: &Snapshot) -> Result<BTreeSet<(u32, u32)>, String> {
    let mut a = BTreeSet::new();
    for (ri, bytes) in snap.mem.regions.iter().enumerate() {
        let img = BuddyImage::parse(bytes).ok_or_else(|| format!("region {ri}: allocator bytes do not parse"))?;
        for p in img.allocated_order0() {
            a.insert((ri as u32, p));
        }
    }
    Ok(a)
}

/// `pins`: roots the harness recorded when readers / ephemeral savepoints were created.
pub fn account(db: &Database, pins: &[(String, Root)]) -> Result<Acct, String> {
    account_opts(db, pins, false)
}

/// `leak_allowed`: the harness itself made a panic unwind through a live write transaction in this
/// session (redb leaks that transaction's pages until the next repair, by design); pages that are
/// allocated and unowned are then counted instead of reported. Every other clause still applies.
pub fn account_opts(db: &Database, pins: &[(String, Root)], leak_allowed: bool) -> Result<Acct, String> {
    let snap = db.verif_snapshot();
    if snap.tracker.live_write_transaction.is_some() {
        return Err("machinery: accounting requested while a write transaction is live".into());
    }
    if !snap.mem.allocators_loaded {
        return Err("machinery: allocator state not loaded".into());
    }
    let m = &snap.mem;
    let slot = |d: &Root, s: &Root, t: u64| Slot {
        version: 3,
        user_root: root_hdr(d),
        system_root: root_hdr(s),
        txn_id: t,
        checksum_ok: true,
    };
    let header = Header {
        god: 0,
        primary: 0,
        recovery_required: true,
        two_phase: false,
        page_size: m.page_size,
        region_header_pages: m.region_header_pages,
        region_max_data_pages: m.region_max_pages,
        full_regions: 0,
        trailing_pages: 0,
        slots: [
            slot(&m.current_data_root, &m.current_system_root, m.current_transaction_id),
            slot(&m.durable_data_root, &m.durable_system_root, m.durable_transaction_id),
        ],
    };
    let layout = Layout::from_len(&header, m.layout_len)?;
    if layout.num_regions() != u64::from(m.num_regions) || m.regions.len() as u32 != m.num_regions {
        return Err(format!(
            "layout of {} bytes maps to {} regions, the header says {}, the allocator has {}",
            m.layout_len,
            layout.num_regions(),
            m.num_regions,
            m.regions.len()
        ));
    }
    let a = allocated_set(&snap)?;
    let src = DbPages(db);
    let mut dec = Decoder::with_source(&src, header, layout);
    // current forest: strict (no page twice, checksums, order, counts)
    let f = dec.forest(0).map_err(|e| format!("current roots: {e}"))?;
    let mut owner: HashMap<(u32, u32), &'static str> = HashMap::new();
    let mut claim = |p: PageNo, who: &'static str| -> Result<(), String> {
        for u in expand(p) {
            if let Some(prev) = owner.insert(u, who) {
                return Err(format!(
                    "page {p} is accounted twice: as {who} and as {prev}"
                ));
            }
        }
        Ok(())
    };
    for p in &f.data_pages {
        claim(*p, "reachable from the data root")?;
    }
    for p in &f.system_pages {
        claim(*p, "reachable from the system root")?;
    }
    let mut pending = 0u64;
    for (_, _, ps) in f.data_freed.iter() {
        for p in ps {
            claim(*p, "a recorded pending-free data page")?;
            pending += 1;
        }
    }
    for (_, _, ps) in f.system_freed.iter() {
        for p in ps {
            claim(*p, "a recorded pending-free system page")?;
            pending += 1;
        }
    }
    for ps in m.unpersisted_data_freed.values() {
        for p in ps {
            claim(PageNo::from_u64(*p), "an in-memory pending-free data page")?;
            pending += 1;
        }
    }
    // completeness
    for u in &a {
        if !owner.contains_key(u) && !leak_allowed {
            return Err(format!(
                "leak: page r{}.{} is allocated but neither reachable from the current roots nor recorded as pending free",
                u.0, u.1
            ));
        }
    }
    for (u, who) in &owner {
        if !a.contains(u) {
            return Err(format!(
                "use after free: page r{}.{} is {who} but the allocator has it free",
                u.0, u.1
            ));
        }
    }
    // bookkeeping tables must name allocated pages only
    let mut recs = 0u64;
    for (t, _, ps) in &f.data_allocated {
        for p in ps {
            recs += 1;
            for u in expand(*p) {
                if !a.contains(&u) {
                    return Err(format!(
                        "the allocated-pages record of transaction {t} names page {p} which is free"
                    ));
                }
            }
        }
    }
    let unpersisted: BTreeSet<u64> = m.unpersisted_pages.iter().copied().collect();
    for (t, ps) in &m.unpersisted_allocations {
        for p in ps {
            for u in expand(PageNo::from_u64(*p)) {
                if !a.contains(&u) {
                    return Err(format!(
                        "the in-memory allocation record of transaction {t} names page {} which is free",
                        PageNo::from_u64(*p)
                    ));
                }
            }
        }
    }
    for p in &m.post_commit_allocations {
        if !unpersisted.contains(p) {
            return Err(format!(
                "post-commit allocation {} is not in the unpersisted page set",
                PageNo::from_u64(*p)
            ));
        }
    }
    for p in &m.unpersisted_pages {
        for u in expand(PageNo::from_u64(*p)) {
            if !a.contains(&u) {
                return Err(format!("unpersisted page {} is free in the allocator", PageNo::from_u64(*p)));
            }
        }
    }
    // pins: durable roots, persistent savepoints, readers and ephemeral savepoints
    let mut pins_walked = 0u64;
    let mut walk_pin = |dec: &mut Decoder<'_>, name: &str, data: Option<TreeHdr>| -> Result<(), String> {
        let (_, pages) = dec
            .savepoint_tree(data)
            .map_err(|e| format!("pinned root of {name} is no longer intact: {e}"))?;
        for p in pages {
            for u in expand(p) {
                if !a.contains(&u) {
                    return Err(format!(
                        "page {p} is still needed by {name} but the allocator has it free"
                    ));
                }
            }
        }
        Ok(())
    };
    walk_pin(&mut dec, "the last durable commit (data)", root_hdr(&m.durable_data_root))?;
    pins_walked += 1;
    {
        // durable system tree
        let prev = dec.check_unique;
        dec.check_unique = false;
        let mut pages = BTreeSet::new();
        let mut st = TreeStats::default();
        let mut un = vec![];
        let r = dec_walk_system(&mut dec, root_hdr(&m.durable_system_root), &mut pages, &mut st, &mut un);
        dec.check_unique = prev;
        r.map_err(|e| format!("pinned system root of the last durable commit is no longer intact: {e}"))?;
        for p in pages {
            for u in expand(p) {
                if !a.contains(&u) {
                    return Err(format!(
                        "page {p} is still needed by the last durable commit's system tree but the allocator has it free"
                    ));
                }
            }
        }
        pins_walked += 1;
    }
    for sp in &f.savepoints {
        walk_pin(&mut dec, &format!("persistent savepoint {}", sp.id), sp.root)?;
        pins_walked += 1;
    }
    for (name, r) in pins {
        walk_pin(&mut dec, name, root_hdr(r))?;
        pins_walked += 1;
    }
    let _ = BTreeMap::<u8, u8>::new();
    Ok(Acct {
        allocated: a.len() as u64,
        data_pages: f.data_pages.len() as u64,
        system_pages: f.system_pages.len() as u64,
        pending_free: pending,
        pins_walked,
        regions: u64::from(m.num_regions),
        unpersisted_pages: m.unpersisted_pages.len() as u64,
        savepoint_roots: f.savepoints.len() as u64,
        data_allocated_records: recs,
    })
}

fn dec_walk_system(
    dec: &mut Decoder<'_>,
    root: Option<TreeHdr>,
    pages: &mut BTreeSet<PageNo>,
    st: &mut TreeStats,
    un: &mut Vec<String>,
) -> Result<(), String> {
    dec.walk_catalog_pub(root, "durable system", pages, st, un).map(|_| ())
}
