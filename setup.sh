#!/bin/sh
# Builds the verification harness once, offline, from files on disk.
set -e
cd "$(dirname "$0")/harness"
export CARGO_NET_OFFLINE=true
export RUSTFLAGS="--cfg redb_verif"
cargo build --offline --release --bin rv
echo "setup: harness built"
