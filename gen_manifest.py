#!/usr/bin/env python3
"""Regenerates MANIFEST.json from the table below (kept in one place so it stays valid)."""
import json
import os
import subprocess

ROOT = os.path.dirname(os.path.abspath(__file__))

CHECKS = {
    "C01": dict(
        category="fault_enumeration",
        technique="runtime monitoring: recording storage backend + crash-image reconstruction, each image reopened and judged by a reference-model oracle, an independent file decoder and redb's own check_integrity",
        text="Every generated history is executed on a recording backend; for every position of its storage-operation log crash images are reconstructed (durable image at the last completed sync plus subsets of the unsynced writes/set_lens, last write torn), reopened through Builder::create_with_backend and compared, on full contents and persistent savepoints, with the commit points admissible at that position; crashes are re-applied to the recovery's own operation stream. Subsets are exhaustive for small windows and sampled beyond; this is enumeration of faults over sampled histories, not a proof.",
        note="Trusted: the crash model of docs/design.md (sync durability, byte-granular tearing, powersafe overwrite), the in-memory backend standing in for a file system, the reference model in harness/src/model.rs. Windows larger than exhaustive_w and tear patterns are sampled.",
        design="5/C01",
    ),

    "C04": dict(
        category="exploration",
        technique="runtime monitoring: reference-model oracle (BTreeMap ordered by the key type) over generated operation sequences and threshold sweeps, with an independent file decoder at every sync",
        text="Random sequences of every table operation named in the property over 10 key types x 2 value types, 1-8 transactions with aborts, non-durable commits and reopen; every return value and a full forward+backward scan after every transaction are compared with a sorted map; the same sequence is replayed under several page/region/cache configurations; threshold sweeps walk leaf sizes across page/3, page/2, page, 2*page byte by byte. Held-on-what-was-generated, not universal.",
        note="Trusted: the order-preserving model encodings of harness/src/typed.rs (cross-checked by C15), std BTreeMap. Values stop at 5 pages.",
        design="5/C04",
    ),
    "C09": dict(
        category="exploration",
        technique="runtime monitoring: reference-model oracle (BTreeMap<K,BTreeSet<V>>) over generated multimap sequences, with an independent file decoder at every sync",
        text="Random insert/remove/remove_all/get/range/len sequences over (u64|&str) keys x (u64|&[u8]|&str) values with 1..3000 values per key, grow/shrink runs that move one key across the inline/subtree boundary one value at a time, values up to more than a page, commit/abort/reopen/delete; every result compared with the model; the decoder checks subtree checksums and pair counts at every sync.",
        note="Trusted: the model; value sets are sampled. Keys per table <= 80.",
        design="5/C09",
    ),
    "C10": dict(
        category="exploration",
        technique="runtime monitoring: independent decoder of the documented file format applied to the durable bytes at every completed sync_data of three workload families",
        text="An in-memory backend hands the durable image, at every completed sync_data, to a decoder that shares no code with redb and checks every rule in the property statement (key order with its own comparators, routing keys, uniform depth, stored counts, no page referenced twice, every XXH3-128 checksum from the slot down, savepoint roots). Workloads: mixed histories with all system tables populated, typed tables over 10 key types, multimaps with inline and subtree values; thorough cross-checks XXH3 between two independent crates.",
        note="Trusted: harness/src/fmt.rs (written from docs/design.md plus record layouts read from the source), xxhash-rust. User-defined key types are not generated.",
        design="5/C10",
    ),
    "C14": dict(
        category="exploration",
        technique="runtime monitoring: shadow-bitmap oracle over the real BuddyAllocator / region allocator driven through cfg(redb_verif) wrappers",
        text="Every region capacity 1..160 with sampled (quick) or all (thorough) initial sizes, hundreds of random alloc/alloc_lowest/free/record_alloc/resize/reload steps each; every answer is judged against a shadow bitmap (in range, disjoint, refusal only when no aligned free block exists, merged order maximal, counts, serialized bytes decoded independently, can-allocate == block-exists for every order after every few steps). Region level: lowest region with a suitable block must be used and the file may grow only when none has one.",
        note="Trusted: the shadow bitmap; shrinking resize only issued when the tail is free (the caller contract). Operation sequences are sampled.",
        design="5/C14",
    ),
    "C15": dict(
        category="exploration",
        technique="runtime monitoring: direct oracle on the public Key/Value trait functions over exhaustive boundary pools and random batches",
        text="For 27 built-in key types: all ordered pairs of a boundary pool (exhaustive for bool/u8/i8) checked for compare == native order, round trip, and separator validity (a <= s < b, len(s) <= len(a), canonical encoding); triples check that every key <= a does not sort above s and every key >= b does; random batches with engineered prefixes. Exhaustive only on the bounded pools.",
        note="Trusted: Rust's Ord on the native values. f32/f64/uuid/chrono types are not part of the baseline configuration.",
        design="5/C15",
    ),

    "C08": dict(
        category="fault_enumeration",
        technique="runtime monitoring: fault-injecting storage backend (k-th call fails), reference-model oracle on every API result, then crash-image oracle on the storage left behind",
        text="Each history is run fault-free to count backend calls, then re-run with the k-th call of a chosen kind failing once or permanently (k sampled in quick, every k for part of the histories in thorough). Panics, wrong results, writes accepted after a reported I/O error and reads that are neither an error nor a committed state are violations; the dropped database's storage is reopened as left and under crash subsets of its unsynced tail and must equal one admissible commit point, pass check_integrity and decode under the independent decoder.",
        note="Trusted: a failing call leaves the storage untouched; the reference model; the crash model of C01 for the unsynced tail. k is sampled except for the exhaustive histories of the thorough tier.",
        design="5/C08",
    ),
    "C20": dict(
        category="exploration",
        technique="runtime monitoring: online contract assertions inside the storage backend given to redb (bounds, copy-on-write set decoded independently at every sync, close-once, no call after close, read-only never mutates) over failing opens, injected failures, life-cycle orders and random histories",
        text="The monitoring backend asserts the contract at every call. Scenarios: 14 kinds of damaged/unclean images opened (and used when the open succeeds), open/use/drop with the k-th backend call failing, database dropped while a writer is live on another thread, writer and readers outliving the database, reopen cycles, check_integrity/compact, read-only databases over clean and unclean files (through the cfg(redb_verif) constructor), random histories. Scenarios and fault indices are sampled.",
        note="Trusted: the monitor serializes calls with its own mutex, so 'after close' means 'acquired the monitor after close() did'; the copy-on-write set comes from harness/src/fmt.rs. The real FileBackend is not traced in the quick tier.",
        design="5/C20",
    ),
}

REASONS_NOT_YET = "check not built yet in this revision of /verif (runtime-monitoring design exists in DESIGN.md section 5)"


def main():
    props = [json.loads(l) for l in open(os.path.join(ROOT, "properties.jsonl"))]
    hooks = subprocess.run(
        ["git", "-C", "/repo", "log", "--format=%H %s"], capture_output=True, text=True
    ).stdout.strip().splitlines()
    hook_commits = [l.split()[0] for l in hooks if "verif hook" in l]
    checks = []
    na = []
    for p in props:
        cid = p["id"]
        c = CHECKS.get(cid)
        if c is None:
            na.append({"property_id": cid, "reason": REASONS_NOT_YET})
            continue
        checks.append(
            {
                "property_id": cid,
                "quick_cmd": "./check %s quick" % cid,
                "thorough_cmd": "./check %s thorough" % cid,
                "evidence_file": "/verif/evidence/%s.json" % cid,
                "replay_cmd_template": "./check %s --replay {path}" % cid,
                "engine": "rv",
                "level_claimed": {
                    "category": c["category"],
                    "text": c["text"],
                    "design_ref": "DESIGN.md section " + c["design"],
                },
                "level_note": c["note"],
                "technique": c["technique"],
            }
        )
    m = {
        "version": 1,
        "setup_cmd": "./setup.sh",
        "hooks": {
            "guard": "redb_verif",
            "enable": "RUSTFLAGS='--cfg redb_verif' (rustc cfg, set by ./check for the harness build; the harness depends on redb by path = /repo)",
            "baseline_off_cmd": "cd /repo && cargo nextest run --workspace --no-fail-fast --test-threads 8 --offline || cargo test --workspace --no-fail-fast --offline",
            "source_commits": hook_commits,
            "add_only": True,
        },
        "engines": [
            {
                "name": "rv",
                "path": "/verif/harness",
                "serves_properties": [c["property_id"] for c in checks],
                "kind_free_text": "Rust harness linking the working tree of redb with hooks on: monitoring storage backend (records, asserts, injects faults, reconstructs crash images), reference models, independent file-format decoder, ownership accountant, pause-point scheduler; one subcommand per property",
            }
        ],
        "checks": checks,
        "not_applicable": na,
        "notes": "All checks: cwd=/verif, VERIF_SEED seeds every PRNG, VERIF_TIER overrides the tier argument. exit 0 held / exit 1 + VIOLATION line / exit 2 machinery failure. Known findings: known_findings.json.",
    }
    with open(os.path.join(ROOT, "MANIFEST.json"), "w") as f:
        json.dump(m, f, indent=1)
    print("MANIFEST.json: %d checks, %d not_applicable" % (len(checks), len(na)))


if __name__ == "__main__":
    main()
