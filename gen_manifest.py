#!/usr/bin/env python3
"""Regenerates MANIFEST.json from the table below (kept in one place so it stays valid)."""
import json
import os
import subprocess

ROOT = os.path.dirname(os.path.abspath(__file__))

CHECKS = {
    "C01": dict(
        category="fault_enumeration",
        technique="runtime monitoring: recording storage backend + crash-image reconstruction, each image reopened and judged by a reference-model oracle, an independent file decoder and redb's own check_integrity",
        text="Every generated history is executed on a recording backend; for every position of its storage-operation log crash images are reconstructed (durable image at the last completed sync plus subsets of the unsynced writes/set_lens, last write torn), reopened through Builder::create_with_backend and compared, on full contents and persistent savepoints, with the commit points admissible at that position; crashes are re-applied to the recovery's own operation stream. Subsets are exhaustive for small windows and sampled beyond; this is enumeration of faults over sampled histories, not a proof.",
        note="Trusted: the crash model of docs/design.md (sync durability, byte-granular tearing, powersafe overwrite), the in-memory backend standing in for a file system, the reference model in harness/src/model.rs. Windows larger than exhaustive_w and tear patterns are sampled.",
        design="5/C01",
    ),
}

REASONS_NOT_YET = "check not built yet in this revision of /verif (runtime-monitoring design exists in DESIGN.md section 5)"


def main():
    props = [json.loads(l) for l in open(os.path.join(ROOT, "properties.jsonl"))]
    hooks = subprocess.run(
        ["git", "-C", "/repo", "log", "--format=%H %s"], capture_output=True, text=True
    ).stdout.strip().splitlines()
    hook_commits = [l.split()[0] for l in hooks if "verif hook" in l]
    checks = []
    na = []
    for p in props:
        cid = p["id"]
        c = CHECKS.get(cid)
        if c is None:
            na.append({"property_id": cid, "reason": REASONS_NOT_YET})
            continue
        checks.append(
            {
                "property_id": cid,
                "quick_cmd": "./check %s quick" % cid,
                "thorough_cmd": "./check %s thorough" % cid,
                "evidence_file": "/verif/evidence/%s.json" % cid,
                "replay_cmd_template": "./check %s --replay {path}" % cid,
                "engine": "rv",
                "level_claimed": {
                    "category": c["category"],
                    "text": c["text"],
                    "design_ref": "DESIGN.md section " + c["design"],
                },
                "level_note": c["note"],
                "technique": c["technique"],
            }
        )
    m = {
        "version": 1,
        "setup_cmd": "./setup.sh",
        "hooks": {
            "guard": "redb_verif",
            "enable": "RUSTFLAGS='--cfg redb_verif' (rustc cfg, set by ./check for the harness build; the harness depends on redb by path = /repo)",
            "baseline_off_cmd": "cd /repo && cargo nextest run --workspace --no-fail-fast --test-threads 8 --offline || cargo test --workspace --no-fail-fast --offline",
            "source_commits": hook_commits,
            "add_only": True,
        },
        "engines": [
            {
                "name": "rv",
                "path": "/verif/harness",
                "serves_properties": [c["property_id"] for c in checks],
                "kind_free_text": "Rust harness linking the working tree of redb with hooks on: monitoring storage backend (records, asserts, injects faults, reconstructs crash images), reference models, independent file-format decoder, ownership accountant, pause-point scheduler; one subcommand per property",
            }
        ],
        "checks": checks,
        "not_applicable": na,
        "notes": "All checks: cwd=/verif, VERIF_SEED seeds every PRNG, VERIF_TIER overrides the tier argument. exit 0 held / exit 1 + VIOLATION line / exit 2 machinery failure. Known findings: known_findings.json.",
    }
    with open(os.path.join(ROOT, "MANIFEST.json"), "w") as f:
        json.dump(m, f, indent=1)
    print("MANIFEST.json: %d checks, %d not_applicable" % (len(checks), len(na)))


if __name__ == "__main__":
    main()
