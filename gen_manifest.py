#!/usr/bin/env python3
"""Regenerates MANIFEST.json from the table below (kept in one place so it stays valid)."""
import json
import os
import subprocess

ROOT = os.path.dirname(os.path.abspath(__file__))

CHECKS = {
    "C01": dict(
        category="fault_enumeration",
        technique="runtime monitoring: recording storage backend + crash-image reconstruction, each image reopened and judged by a reference-model oracle, an independent file decoder and redb's own check_integrity",
        text="Every generated history is executed on a recording backend; for every position of its storage-operation log crash images are reconstructed (durable image at the last completed sync plus subsets of the unsynced writes/set_lens, last write torn), reopened through Builder::create_with_backend and compared, on full contents and persistent savepoints, with the commit points admissible at that position; crashes are re-applied to the recovery's own operation stream. Subsets are exhaustive for small windows and sampled beyond; this is enumeration of faults over sampled histories, not a proof.",
        note="Trusted: the crash model of docs/design.md (sync durability, byte-granular tearing, powersafe overwrite), the in-memory backend standing in for a file system, the reference model in harness/src/model.rs. Windows larger than exhaustive_w and tear patterns are sampled.",
        design="5/C01",
    ),

    "C03": dict(
        category="exploration",
        technique="runtime monitoring: pause-point controller forcing chosen preemptions inside begin_read/commit/abort/drop calls, jittered multi-thread stress, and a sequence-number history oracle (two tables written together by every commit) plus the ownership accountant",
        text="For every call kind (durable 1PC/2PC/quick-repair and non-durable commit, abort, writer drop, begin_read, begin_write, savepoint create+drop inside a writer, Savepoint drop, Database drop with and without a live writer) a dry run lists the named pause points it passes; for every (call, point) x intruder call (full read, two begin_reads, drop of an older reader, drop of a savepoint, begin_write+commit, Database drop) x 4 database states the victim is parked at the point, the intruder's whole call runs on another thread, the victim resumes. Judged: a reader sees exactly one requested commit number in every key of both tables; a second writer never runs while one is live; commit numbers read inside transactions are consecutive; final state = last acknowledged commit (also after reopening when the Database was dropped); page accounting balances; no deadlock. Late-root scenarios: a reader parked before/after registering, one commit of kind X, the reader keeps its snapshot, three commits of kind Y, the reader reads again (X,Y over durable/non-durable/2PC/quick-repair). Stress: 2-5 writers, 2-6 readers, 3 lock-churn threads, savepoint dropper, jitter at all 32 points; per-reader monotonic, never older than an acknowledged commit, never an aborted value. Only the schedules forced or happened upon are covered.",
        note="Trusted: the sequence-number oracle; OS scheduling between pause points is not controlled; blocked/ran is decided after 150 ms. Preemptions inside B-tree code are only those the OS produces.",
        design="5/C03",
    ),
    "C16": dict(
        category="exploration",
        technique="runtime monitoring: one WriteTransaction shared by reference among per-table threads with forced preemptions at pause points in set_dirty, ephemeral_savepoint, commit and Savepoint::drop; per-thread reference models, ownership accountant, independent decoder and later savepoint restores as oracles",
        text="Each case shares one WriteTransaction among 2-5 threads, one per table (plain and multimap), each applying a random stream checked against its own model, while other threads call ephemeral_savepoint() and drop savepoints; then abort or commit of any kind. Ten scripted modes park a worker inside its first table open, park ephemeral_savepoint() after its dirty check or after registering, park the commit between purge/epilogue steps while a Savepoint is dropped, and park Savepoint::drop while the commit runs. Judged: each table equals its thread's model; every page accounted exactly once (no page in two trees, allocated-pages records name only allocated pages); ephemeral_savepoint() succeeds only before any table open returned; a surviving savepoint restores its state and the books balance afterwards; check_integrity Ok(true); the closed file decodes. Interleavings inside B-tree code are those the OS produces.",
        note="Trusted: per-thread models, harness/src/own.rs, harness/src/fmt.rs. TSan/Miri legs are described in DESIGN.md section 7.",
        design="5/C16",
    ),
    "C04": dict(
        category="exploration",
        technique="runtime monitoring: reference-model oracle (BTreeMap ordered by the key type) over generated operation sequences and threshold sweeps, with an independent file decoder at every sync",
        text="Random sequences of every table operation named in the property over 10 key types x 2 value types, 1-8 transactions with aborts, non-durable commits and reopen; every return value and a full forward+backward scan after every transaction are compared with a sorted map; the same sequence is replayed under several page/region/cache configurations; threshold sweeps walk leaf sizes across page/3, page/2, page, 2*page byte by byte. Held-on-what-was-generated, not universal.",
        note="Trusted: the order-preserving model encodings of harness/src/typed.rs (cross-checked by C15), std BTreeMap. Values stop at about 1.5 MB (400 pages at the small page sizes).",
        design="5/C04",
    ),
    "C09": dict(
        category="exploration",
        technique="runtime monitoring: reference-model oracle (BTreeMap<K,BTreeSet<V>>) over generated multimap sequences, with an independent file decoder at every sync",
        text="Random insert/remove/remove_all/get/range/len sequences over (u64|&str) keys x (u64|&[u8]|&str) values with 1..3000 values per key, grow/shrink runs that move one key across the inline/subtree boundary one value at a time, values up to more than a page, commit/abort/reopen/delete; every result compared with the model; the decoder checks subtree checksums and pair counts at every sync.",
        note="Trusted: the model; value sets are sampled. Keys per table <= 80.",
        design="5/C09",
    ),
    "C10": dict(
        category="exploration",
        technique="runtime monitoring: independent decoder of the documented file format applied to the durable bytes at every completed sync_data of three workload families",
        text="An in-memory backend hands the durable image, at every completed sync_data, to a decoder that shares no code with redb and checks every rule in the property statement (key order with its own comparators, routing keys, uniform depth, stored counts, no page referenced twice, every XXH3-128 checksum from the slot down, savepoint roots). Workloads: mixed histories with all system tables populated, typed tables over 10 key types, multimaps with inline and subtree values; thorough cross-checks XXH3 between two independent crates.",
        note="Trusted: harness/src/fmt.rs (written from docs/design.md plus record layouts read from the source), xxhash-rust. User-defined key types are not generated.",
        design="5/C10",
    ),
    "C14": dict(
        category="exploration",
        technique="runtime monitoring: shadow-bitmap oracle over the real BuddyAllocator / region allocator driven through cfg(redb_verif) wrappers",
        text="Every region capacity 1..160 with sampled (quick) or all (thorough) initial sizes, hundreds of random alloc/alloc_lowest/free/record_alloc/resize/reload steps each; every answer is judged against a shadow bitmap (in range, disjoint, refusal only when no aligned free block exists, merged order maximal, counts, serialized bytes decoded independently, can-allocate == block-exists for every order after every few steps). Region level: lowest region with a suitable block must be used and the file may grow only when none has one. A database-level stratum fills, empties, shrinks (regions removed) and refills a real database with 8/16/32-page regions three times, with the ownership accountant after every commit.",
        note="Trusted: the shadow bitmap; shrinking resize only issued when the tail is free (the caller contract). Operation sequences are sampled.",
        design="5/C14",
    ),
    "C15": dict(
        category="exploration",
        technique="runtime monitoring: direct oracle on the public Key/Value trait functions over exhaustive boundary pools and random batches",
        text="For 27 built-in key types: all ordered pairs of a boundary pool (exhaustive for bool/u8/i8) checked for compare == native order, round trip, and separator validity (a <= s < b, len(s) <= len(a), canonical encoding); triples check that every key <= a does not sort above s and every key >= b does; random batches with engineered prefixes. Exhaustive only on the bounded pools. Pools and generators include elements of 253/254/255/300 (rarely 65535/65536) bytes so that composite encodings use 1-, 3- and 5-byte length prefixes.",
        note="Trusted: Rust's Ord on the native values. f32/f64/uuid/chrono types are not part of the baseline configuration.",
        design="5/C15",
    ),

    "C08": dict(
        category="fault_enumeration",
        technique="runtime monitoring: fault-injecting storage backend (k-th call fails), reference-model oracle on every API result, then crash-image oracle on the storage left behind",
        text="Each history is run fault-free to count backend calls, then re-run with the k-th call of a chosen kind failing once or permanently (k sampled in quick, every k for part of the histories in thorough); queued-writer scenarios inject the failure into one writer's commit while another thread waits in begin_write() and must be refused. Panics, wrong results, writes accepted after a reported I/O error and reads that are neither an error nor a committed state are violations; the dropped database's storage is reopened as left and under crash subsets of its unsynced tail and must equal one admissible commit point, pass check_integrity and decode under the independent decoder.",
        note="Trusted: a failing call leaves the storage untouched; the reference model; the crash model of C01 for the unsynced tail. k is sampled except for the exhaustive histories of the thorough tier.",
        design="5/C08",
    ),
    "C20": dict(
        category="exploration",
        technique="runtime monitoring: online contract assertions inside the storage backend given to redb (bounds, copy-on-write set decoded independently at every sync, close-once, no call after close, read-only never mutates) over failing opens, injected failures, life-cycle orders and random histories",
        text="The monitoring backend asserts the contract at every call. Scenarios: 14 kinds of damaged/unclean images opened (and used when the open succeeds), open/use/drop with the k-th backend call failing, database dropped while a writer is live on another thread, writer and readers outliving the database, reopen cycles, check_integrity/compact, read-only databases over clean and unclean files (through the cfg(redb_verif) constructor), random histories. Scenarios and fault indices are sampled. A third of the life-cycle scenarios make the backend's own close() report an error. The monitor also counts its own reads in flight (entry to return) and reports a close() that overlaps one; a scenario with read latency, a reader thread, a failing commit and a drop exercises that.",
        note="Trusted: the monitor serializes calls with its own mutex, so 'after close' means 'acquired the monitor after close() did'; 'overlaps close()' means the read entered the monitor before close() took the monitor lock and had not left it; the copy-on-write set comes from harness/src/fmt.rs. The real FileBackend is not traced in the quick tier.",
        design="5/C20",
    ),

    "C02": dict(
        category="exploration",
        technique="runtime monitoring: snapshot oracle re-consulting every live reader object (transactions, tables, owned guards and half-consumed owned iterators) after every later step of generated histories",
        text="Up to 8 readers begun at different commits hold ReadTransactions, ReadOnlyTable/ReadOnlyMultimapTable handles, OwnedAccessGuards, half-consumed OwnedRange and OwnedMultimapValue iterators (the transaction handle often dropped first). After every later step -- commits of every durability and strategy, aborts, savepoint restores, page-freeing deletes, refused compact(), catalog changes -- each object is re-read in full and compared with the model snapshot taken when begin_read returned; cache sizes 0..1 GiB; finally the Database is dropped first and survivors must yield their snapshot or DatabaseClosed.",
        note="Trusted: the reference model. Reader sets and histories are sampled; thread interleavings are C03's stress.",
        design="5/C02",
    ),
    "C05": dict(
        category="exploration",
        technique="runtime monitoring: before/after state capture (contents, savepoints, savepoint validity, allocated-page set from the allocator snapshot hook) around abandoned, poisoned and I/O-failed transactions",
        text="After an arbitrary prelude the full state is captured (contents, persistent savepoint ids, validity of every live Savepoint handle, stats().allocated_pages(), exact allocated page set); a transaction mixing table writes, catalog changes and savepoint operations is ended by abort, by drop, by a panicking retain/extract_if predicate followed by commit (must be TransactionPoisoned) or by a one-shot read failure inside rename/delete/restore (commit must fail, writes refused, state after reopen as before); the capture must be identical afterwards and the ownership accountant must balance. The tracker's registrations (live reads, savepoints, pending commits) are compared before/after the abandoned transaction and every case ends with a drain (all pins dropped, at most 3 empty commits, nothing pending free).",
        note="Trusted: the allocator snapshot hook H3 and the decoder; bodies and preludes are sampled.",
        design="5/C05",
    ),
    "C06": dict(
        category="exploration",
        technique="runtime monitoring: ownership accountant (allocator bitmaps vs independently recomputed reachability and pending-free lists, pinned roots re-verified) after every step, plus the backend's copy-on-write write guard",
        text="After every step of mixed and steady-churn histories the accountant requires exact equality between the allocated set and (pages reachable from the data root) + (from the system root) + (pending-free lists on disk and in memory), pairwise disjointness, every page of the last durable commit and of every live reader/savepoint root still allocated and checksum-intact, allocation records naming only allocated pages; at the end all pins are dropped and at most 3 empty durable commits must leave nothing pending free. The backend rejects writes into pages reachable from the last durable commit.",
        note="Trusted: hooks H3/H4 (state snapshot, page reader), harness/src/fmt.rs. Order-0 granularity, quiescent points only; 'returns to its previous level' is restated as bounded progress.",
        design="5/C06",
    ),
    "C07": dict(
        category="exploration",
        technique="runtime monitoring: reference-model oracle with allowed-outcome sets over savepoint-dense histories, ownership accountant after every step, crash-image oracle restoring every recovered persistent savepoint",
        text="Histories dense in ephemeral/persistent savepoint creation, restore (valid, invalidated, durable and non-durable), deletion and drop; the model fixes the allowed outcome of every call; after a restore the transaction and, after commit, every reader must see exactly the captured contents; later savepoints must be refused; the accountant must balance after every step; for part of the cases every crash image must list exactly the savepoints of its commit point and restoring each yields its snapshot.",
        note="Trusted: the reference model of savepoint semantics as documented in the API; crash model of C01; histories sampled.",
        design="5/C07",
    ),
    "C11": dict(
        category="exploration",
        technique="runtime monitoring: ownership accountant immediately after every kind of open, repeated check_integrity, continued writing, and an independent decode of the allocator-state table stored in the closed file",
        text="Up to 4 stop/open cycles per storage: clean close, crash right after a quick-repair commit, crash after ordinary commits following a quick-repair commit, crash with all writes applied, crash at a random position with a random subset of unsynced writes. After each open: exact allocator-vs-reachability equality, check_integrity x3 (with and without a pending non-durable commit) must be Ok(true) with unchanged contents, 2-10 more transactions with the accountant after each; after the final clean close the stored allocator-state table is decoded independently and compared with what the file needs. Every 8th case is a many-regions case (512-byte pages, 8-page regions, up to ~470 regions).",
        note="Trusted: hooks H3/H4, the decoder, the crash model. One random subset per random-position stop (C01 enumerates).",
        design="5/C11",
    ),
    "C13": dict(
        category="exploration",
        technique="runtime monitoring: reference-model oracle, file-length monitor and transaction-id counter around compact(), refusal oracle, ownership accountant, crash-image oracle over the compaction's storage operations",
        text="Fragmented multi-region databases (pending frees, pending non-durable commits, multimap subtrees, readers, savepoints): compact() with a reader or savepoint alive must return the matching error and change nothing; the same when the pin is created by a write transaction that was already live when compact() was called on another thread (late-pin scenarios); otherwise contents unchanged, file length at return not larger, transactions consumed <= 4*allocated+16, accountant balanced; for part of the cases each storage operation inside the compaction is a crash point recovering to the unchanged contents. One known finding (growth of an already packed database) is listed in known_findings.json.",
        note="Trusted: the reference model; file length is measured at the backend when compact() returns; the pass bound is a generous logical bound.",
        design="5/C13",
    ),

    "C17": dict(
        category="exploration",
        technique="runtime monitoring: catalog reference model (name -> kind, types, contents) prescribing the outcome of every open/rename/delete/list, with the ownership accountant after every transaction",
        text="Sequences over 8 names and 10 (kind, key, value) instantiations including same-width type pairs: every open (own or foreign types, second open), delete and rename (new/existing/self target, right or wrong kind, while a handle is open) and list must return exactly what the model prescribes; contents follow renames; readers see nothing before commit and nothing of aborted work, re-open tables with foreign types and through the untyped API; the accountant proves deleted tables release their pages. A separate stratum uses user-defined key/value types (same TypeName with another fixed or variable width, another name with the same width) in key and value position: an open is accepted iff name and width agree.",
        note="Trusted: the catalog model written from the documented error semantics; the user-defined types are four hand-written ones.",
        design="5/C17",
    ),
    "C18": dict(
        category="exploration",
        technique="runtime monitoring: sorted-map gap-cursor oracle over generated cursor scripts, with the independent file decoder on the pages the bulk splice produced",
        text="Tables of 0..3000 entries, three key types, values up to 3 pages; scripts of bound positioning, peeks, moves, buffered insert runs of 1..500 in both directions with direction switches, deliberately unordered keys (equal to a neighbour, beyond one, equal to a pending insert), removals, close or silent drop; every answer compared with a sorted-map cursor; whole-table equality after every script, commit, abort; read-only cursors on Table and ReadOnlyTable.",
        note="Trusted: the model cursor (gap tracked by the key before it). Scripts are sampled.",
        design="5/C18",
    ),

    "C12": dict(
        category="fault_enumeration",
        technique="runtime monitoring: enumerated alterations of closed database images, each opened and integrity-checked in a worker subprocess and judged by a commit-point oracle on the contents then served",
        text="Closed images of generated histories (512 B and 4 KiB pages, all table shapes, some crash-recovered first) are altered: header bits, byte positions of every reachable page x {bit flip, 0x00, 0xFF} (all positions in thorough, every 9th in quick), byte runs, page swaps, a sample of free/slack bytes. Each altered image is opened and check_integrity() called: Ok(true) demands that the full contents and persistent savepoints then served equal one commit point of the history, Ok(false) demands the same plus Ok(true) from a second check; Err is fine; panics and process aborts are counted, not judged.",
        note="Trusted: the reference model's list of commit points. Workers are subprocesses of the harness binary. Positions are sampled in the quick tier.",
        design="5/C12",
    ),
    "C19": dict(
        category="exploration",
        technique="runtime monitoring: differential execution against redb 3.0.0 linked into the same harness, with a reference model carried across the version boundary in both directions",
        text="Files written by the working tree (plain key types, long-common-prefix keys with shortened separators over several levels, multimaps, savepoints, every commit strategy; at clean close and as crash images) are opened by redb 3.0.0: contents and savepoints must equal an admissible commit point and 3.0.0's check_integrity must be Ok(true); 3.0.0 continues the file and the working tree reads it back; and the reverse direction. Composite built-in types are a separate stratum. Two known findings are listed in known_findings.json. A third of the working-tree histories take a persistent savepoint on the still empty database.",
        note="Trusted: redb 3.0.0 from the offline registry as the reference reader; 4 KiB pages only; one older release.",
        design="5/C19",
    ),
}

REASONS_NOT_YET = "check not built yet in this revision of /verif (runtime-monitoring design exists in DESIGN.md section 5)"


def main():
    props = [json.loads(l) for l in open(os.path.join(ROOT, "properties.jsonl"))]
    hooks = subprocess.run(
        ["git", "-C", "/repo", "log", "--format=%H %s"], capture_output=True, text=True
    ).stdout.strip().splitlines()
    hook_commits = [l.split()[0] for l in hooks if "verif hook" in l]
    checks = []
    na = []
    for p in props:
        cid = p["id"]
        c = CHECKS.get(cid)
        if c is None:
            na.append({"property_id": cid, "reason": REASONS_NOT_YET})
            continue
        checks.append(
            {
                "property_id": cid,
                "quick_cmd": "./check %s quick" % cid,
                "thorough_cmd": "./check %s thorough" % cid,
                "evidence_file": "/verif/evidence/%s.json" % cid,
                "replay_cmd_template": "./check %s --replay {path}" % cid,
                "engine": "rv",
                "level_claimed": {
                    "category": c["category"],
                    "text": c["text"],
                    "design_ref": "DESIGN.md section " + c["design"],
                },
                "level_note": c["note"],
                "technique": c["technique"],
            }
        )
    m = {
        "version": 1,
        "setup_cmd": "./setup.sh",
        "hooks": {
            "guard": "redb_verif",
            "enable": "RUSTFLAGS='--cfg redb_verif' (rustc cfg, set by ./check for the harness build; the harness depends on redb by path = /repo)",
            "baseline_off_cmd": "cd /repo && cargo nextest run --workspace --no-fail-fast --test-threads 8 --offline || cargo test --workspace --no-fail-fast --offline",
            "source_commits": hook_commits,
            "add_only": True,
        },
        "engines": [
            {
                "name": "rv",
                "path": "/verif/harness",
                "serves_properties": [c["property_id"] for c in checks],
                "kind_free_text": "Rust harness linking the working tree of redb with hooks on: monitoring storage backend (records, asserts, injects faults, reconstructs crash images), reference models, independent file-format decoder, ownership accountant, pause-point scheduler; one subcommand per property",
            }
        ],
        "checks": checks,
        "not_applicable": na,
        "notes": "All checks: cwd=/verif, VERIF_SEED seeds every PRNG, VERIF_TIER overrides the tier argument. exit 0 held / exit 1 + VIOLATION line / exit 2 machinery failure. Known findings: known_findings.json.",
    }
    with open(os.path.join(ROOT, "MANIFEST.json"), "w") as f:
        json.dump(m, f, indent=1)
    print("MANIFEST.json: %d checks, %d not_applicable" % (len(checks), len(na)))


if __name__ == "__main__":
    main()
