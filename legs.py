"""Sanitizer / interpreter legs of the thorough tier (driven by ./check).

Each leg rebuilds the harness (and redb from /repo's working tree, hooks on) under one dynamic
analysis and re-runs the monitors of one property inside it, so the same oracles judge the run and
the analysis adds its own reports:

  tsan  -Zsanitizer=thread with an instrumented std (-Zbuild-std): data races
  asan  -Zsanitizer=address: out-of-bounds / use-after-free in the unsafe SIMD checksum code
  miri  cargo miri run on very small cases: undefined behaviour, data races, deadlocks, under
        Miri's own seeded scheduler (a source of interleavings the OS does not produce)

A leg that cannot be built (toolchain missing) is reported as skipped in the evidence and never
turns into a verdict; a leg that ran and reported something is a violation with the log as replay.
"""
import json
import os
import re
import subprocess
import time

TSAN_DIR = "target-tsan"
ASAN_DIR = "target-asan"
MIRI_DIR = "target-miri"
TRIPLE = "x86_64-unknown-linux-gnu"

# which legs run for which property in the thorough tier
LEGS = {
    "C03": ["tsan", "miri"],
    "C16": ["tsan", "miri"],
    "C10": ["asan"],
}


def legs_for(cid, tier):
    if os.environ.get("VERIF_NO_LEGS"):
        return []
    if tier != "thorough":
        return []
    return LEGS.get(cid, [])


def _have_nightly():
    try:
        p = subprocess.run(["cargo", "+nightly", "--version"], capture_output=True, text=True, timeout=60)
        return p.returncode == 0
    except Exception:
        return False


def _build(root, env, rustflags, target_dir, build_std, log):
    e = dict(env)
    e["RUSTFLAGS"] = rustflags
    e["CARGO_TARGET_DIR"] = os.path.join(root, target_dir)
    cmd = ["cargo", "+nightly", "build", "--offline", "--target", TRIPLE, "--profile", "fast", "--bin", "rv"]
    if build_std:
        cmd.insert(3, "-Zbuild-std")
    t0 = time.time()
    p = subprocess.run(cmd, cwd=os.path.join(root, "harness"), env=e, stdout=subprocess.PIPE, stderr=subprocess.STDOUT, text=True)
    if p.returncode != 0:
        log(p.stdout[-3000:])
        return None, time.time() - t0
    return os.path.join(root, target_dir, TRIPLE, "fast", "rv"), time.time() - t0


def _frames(block):
    """first frames of a sanitizer report that lie in redb or the harness, line numbers stripped"""
    out = []
    for line in block.splitlines():
        m = re.search(r"#\d+ (\S.*?) (/\S+?):\d+", line)
        if m and ("/repo/src" in m.group(2) or "/verif/harness" in m.group(2)):
            out.append(re.sub(r"::h[0-9a-f]{16}", "", m.group(1)))
        if len(out) >= 3:
            break
    return out


def _sanitizer_leg(kind, cid, seed, jobs, root, env, log):
    res = {"violations": [], "machinery": [], "summary": {"leg": kind}}
    if not _have_nightly():
        res["summary"]["skipped"] = "no nightly toolchain"
        return res
    if kind == "tsan":
        flags, tdir, std = "--cfg redb_verif -Zsanitizer=thread", TSAN_DIR, True
    else:
        flags, tdir, std = "--cfg redb_verif -Zsanitizer=address -Cforce-frame-pointers=yes", ASAN_DIR, False
    binp, bt = _build(root, env, flags, tdir, std, log)
    res["summary"]["build_s"] = round(bt, 1)
    if binp is None:
        res["summary"]["skipped"] = "sanitizer build failed (see stderr)"
        return res
    logdir = os.path.join(root, tdir, "logs")
    os.makedirs(logdir, exist_ok=True)
    prefix = os.path.join(logdir, "%s-%s-%d" % (kind, cid, os.getpid()))
    out = prefix + ".json"
    e = dict(env)
    opts = "halt_on_error=0:log_path=%s:exitcode=0" % prefix
    if kind == "tsan":
        e["TSAN_OPTIONS"] = opts + ":second_deadlock_stack=1"
    else:
        e["ASAN_OPTIONS"] = opts + ":detect_leaks=0"
    cmd = [binp, cid, "--tier", "quick", "--seed", str(seed), "--jobs", str(jobs), "--out", out,
           "--known", os.path.join(root, "known_findings.json"), "--time-cap", "900"]
    t0 = time.time()
    p = subprocess.run(cmd, cwd=root, env=e)
    res["summary"]["run_s"] = round(time.time() - t0, 1)
    res["summary"]["exit"] = p.returncode
    if os.path.exists(out):
        j = json.load(open(out))
        os.unlink(out)
        res["summary"]["evaluations"] = j.get("coverage", {}).get("evaluations")
        for v in j.get("violation_list", []):
            v["signature"] = "%s-leg:%s" % (kind, v.get("signature", ""))
            res["violations"].append(v)
        for m in j.get("machinery_errors", []):
            res["machinery"].append("%s leg: %s" % (kind, m))
    else:
        res["machinery"].append("%s leg produced no output (exit %d)" % (kind, p.returncode))
    # sanitizer reports
    seen = {}
    nblocks = 0
    for fn in sorted(os.listdir(logdir)):
        full = os.path.join(logdir, fn)
        if not full.startswith(prefix + ".") or fn.endswith(".json"):
            continue
        text = open(full, errors="replace").read()
        blocks = re.split(r"(?m)^={18,}\n", text) if kind == "tsan" else re.split(r"(?m)^(?==+\d+==ERROR)", text)
        for b in blocks:
            if "Sanitizer" not in b:
                continue
            nblocks += 1
            m = re.search(r"(WARNING|ERROR): (\w+Sanitizer): ([^\n(]+)", b)
            what = m.group(3).strip() if m else "report"
            key = what + " @ " + " <- ".join(_frames(b))
            if key not in seen:
                seen[key] = (full, b)
    res["summary"]["report_blocks"] = nblocks
    res["summary"]["distinct_reports"] = len(seen)
    for key, (full, b) in seen.items():
        res["violations"].append({
            "signature": "%s:%s" % (kind, key),
            "detail": b[:3000],
            "replay": {"leg": kind, "log": full, "cmd": " ".join(cmd)},
        })
    return res


def _miri_leg(cid, seed, jobs, root, env, log):
    res = {"violations": [], "machinery": [], "summary": {"leg": "miri"}}
    if not _have_nightly():
        res["summary"]["skipped"] = "no nightly toolchain"
        return res
    e = dict(env)
    e["RUSTFLAGS"] = "--cfg redb_verif"
    e["CARGO_TARGET_DIR"] = os.path.join(root, MIRI_DIR)
    shards = int(os.environ.get("VERIF_MIRI_SHARDS", str(max(2, min(jobs, 12)))))
    tiny = int(os.environ.get("VERIF_MIRI_TINY", "2"))
    # build once (first shard builds, the others reuse): do a no-op run to compile
    t0 = time.time()
    procs = []
    logdir = os.path.join(root, MIRI_DIR, "logs")
    os.makedirs(logdir, exist_ok=True)
    first = True
    for k in range(shards):
        ee = dict(e)
        # isolation stays on: Miri's virtual clock makes sleeps free and the run deterministic per seed
        ee["MIRIFLAGS"] = "-Zmiri-seed=%d -Zmiri-preemption-rate=0.02 -Zmiri-isolation-error=warn-nobacktrace" % (seed * 1000 + k)
        lf = os.path.join(logdir, "miri-%s-%d-%d.log" % (cid, os.getpid(), k))
        cmd = ["cargo", "+nightly", "miri", "run", "--offline", "--bin", "rv", "--",
               cid, "--tiny", str(tiny), "--jobs", "1", "--seed", str(seed * 1000 + k)]
        f = open(lf, "w")
        p = subprocess.Popen(cmd, cwd=os.path.join(root, "harness"), env=ee, stdout=f, stderr=subprocess.STDOUT)
        procs.append((p, lf, f, " ".join(cmd), ee["MIRIFLAGS"]))
        if first:
            # let the first shard take the build lock and compile before the others start
            first = False
            time.sleep(1.0)
    cap = float(os.environ.get("VERIF_MIRI_CAP_S", "2400"))
    evals = 0
    finished = 0
    for p, lf, f, cmd, flags in procs:
        left = max(5.0, cap - (time.time() - t0))
        try:
            p.wait(timeout=left)
        except subprocess.TimeoutExpired:
            p.kill()
            p.wait()
            f.close()
            res["summary"].setdefault("inconclusive", []).append("shard timed out after %.0fs: %s" % (cap, flags))
            continue
        f.close()
        text = open(lf, errors="replace").read()
        m = re.search(r"rv %s: evaluations=(\d+) distinct=(\d+) violations=(\d+)" % cid, text)
        ub = re.search(r"(?m)^error: (Undefined Behavior|deadlock|unsupported operation|.*[Dd]ata race)[^\n]*", text)
        if ub and "unsupported operation" in ub.group(0):
            res["summary"].setdefault("inconclusive", []).append("miri: " + ub.group(0)[:300])
            continue
        if ub:
            res["violations"].append({
                "signature": "miri:" + re.sub(r"alloc\d+|0x[0-9a-f]+", "#", ub.group(0))[:200],
                "detail": text[max(0, ub.start() - 200):ub.start() + 3000],
                "replay": {"leg": "miri", "log": lf, "cmd": cmd, "MIRIFLAGS": flags},
            })
            continue
        if m:
            finished += 1
            evals += int(m.group(1))
            if int(m.group(3)) > 0:
                # the harness printed its JSON on stdout: extract the violations
                # the harness prints its evidence JSON on stdout (keys sorted: "assumptions" first)
                listed = []
                a = text.find('{\n  "assumptions"')
                b = text.rfind("\n}")
                if a >= 0 and b > a:
                    try:
                        listed = json.loads(text[a:b + 2]).get("violation_list", [])
                    except Exception:
                        listed = []
                for v in listed or [{"signature": "oracle", "detail": text[-3000:], "replay": {}}]:
                    v["signature"] = "miri-leg:" + v.get("signature", "")
                    v["replay"] = {"leg": "miri", "log": lf, "cmd": cmd, "MIRIFLAGS": flags}
                    res["violations"].append(v)
        elif p.returncode != 0:
            res["summary"].setdefault("inconclusive", []).append("miri shard exited %d without a verdict (log %s)" % (p.returncode, lf))
    res["summary"].update({"shards": shards, "shards_finished": finished, "cases_interpreted": evals, "run_s": round(time.time() - t0, 1)})
    return res


def run_leg(leg, cid, tier, seed, jobs, root, env, log):
    log("check: leg %s for %s ..." % (leg, cid))
    if leg in ("tsan", "asan"):
        r = _sanitizer_leg(leg, cid, seed, jobs, root, env, log)
    elif leg == "miri":
        r = _miri_leg(cid, seed, jobs, root, env, log)
    else:
        r = {"violations": [], "machinery": ["unknown leg " + leg], "summary": {}}
    log("check: leg %s: %s" % (leg, json.dumps(r["summary"])))
    return r
